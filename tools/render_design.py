#!/usr/bin/env python3
"""Fill the generated parts of DESIGN.md (§12.5 matrix) from sensitivity/matrix.tsv."""
import re, os
V = os.path.dirname(os.path.dirname(os.path.abspath(__file__)))
rows = [l.rstrip('\n').split('\t') for l in open(os.path.join(V, 'sensitivity', 'matrix.tsv')) if l.strip()]
props = ["C08", "C09", "C10", "C11", "C12", "C13", "C14", "C15", "C19"]
out = ["| change | " + " | ".join(props) + " |", "|---|" + "---|" * len(props)]
for r in rows:
    cells = {}
    for c in r[1:]:
        p, rest = c.split(':', 1)
        m = re.match(r"(\S?)(\[(.*)\])?", rest)
        code = rest[0] if rest else '?'
        cls = re.search(r"\[(.*)\]", rest)
        if code == '0':
            cells[p] = '·'
        elif code == '1':
            cells[p] = '**1** ' + (cls.group(1).split('/', 1)[1] if cls else '')
        else:
            cells[p] = 'exit ' + code
    out.append("| `" + r[0] + "` | " + " | ".join(cells.get(p, '?') for p in props) + " |")
table = "\n".join(out)
p = os.path.join(V, 'DESIGN.md')
s = open(p).read()
block = "<!-- MATRIX:BEGIN -->\n" + table + "\n<!-- MATRIX:END -->"
if "<!-- MATRIX:BEGIN -->" in s:
    s = re.sub(r"<!-- MATRIX:BEGIN -->.*?<!-- MATRIX:END -->", lambda m: block, s, flags=re.S)
else:
    s = s.replace("@MATRIX@", block)
open(p, 'w').write(s)
print("rendered", len(rows), "rows")
