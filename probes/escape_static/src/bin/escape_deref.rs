//! Observation (known finding of C09): this safe program compiles on the pinned tree; it keeps a
//! `&'static [u64]` copied out of a MemCase through Deref past the drop of the case.
//! If a future API makes it stop compiling, the finding is resolved.
use epserde::prelude::*;

fn main() {
    let Ok(case) = <Vec<u64>>::load_mem("/nonexistent") else { return };
    let r: &'static [u64] = *case;
    drop(case);
    println!("{:?}", r.first());
}
