"""Static description of each claimed check (level, rule, real/stub components, assumptions).
Counts are never here: every number in an evidence file is measured by the run that writes it."""

REAL_COMMON = [
    "all of epserde and epserde-derive, compiled from /repo's working tree (derive macro patched in from /repo/epserde-derive)",
    "std::io::{Write::write_all, Read::read_exact, BufWriter, BufReader, Cursor}",
    "the system allocator underneath the tracking allocator",
]

META = {
    "C19": {
        "level": "exploration",
        "builds": ["default"],
        "rule": "seeded operation histories (1..64 ops, per-run random alphabet subset, alignment type A2..A256, optional with_capacity) "
                "executed step by step against std::io::Cursor<Vec<u8>>; a history is non-trivial when at least one write was issued with the "
                "position past the end of the data; distinct = distinct (alignment, capacity, op list) among those",
        "exhaustive_dimensions": [],
        "sampled_dimensions": ["operation histories", "alignment type", "initial capacity", "enabled-operation subset per run"],
        "expected_probes": ["write_past_end", "empty_write_past_end", "gap_zero_fill", "seek_error"],
        "real": ["epserde::utils::AlignedCursor (Read/Write/Seek impls, accessors, Clone, into_parts) from /repo's working tree",
                 "std::io::Cursor<Vec<u8>> as the executable reference model"],
        "stub": ["none: the operation history is the only simulated input"],
        "assumptions": [
            "std::io::Cursor<Vec<u8>> of the installed toolchain is the reference behaviour",
            "only operations AlignedCursor itself implements are in the alphabet (provided methods such as read_exact are std compositions)",
            "a write is executed only when position+len <= 1 MiB (beyond that both cursors die in the allocator)",
            "64-bit little-endian Linux",
        ],
    },
}

SIM_IO_STUB = ["the byte sink / byte source (SimWriter / SimReader): scripted accepts, short transfers, EINTR, Ok(0), hard errors, flush failure"]

META["C13"] = {
    "level": "fault_enumeration",
    "builds": ["default"],
    "rule": "per (target, value): a hard failure after exactly k accepted bytes for EVERY k in [0,len] and a flush failure, for each of three sink "
            "compositions (scripted sink under std write_all; BufWriter::with_capacity(c, sink); sink implementing the library's WriteNoStd directly); "
            "premature Ok(0) at every (thorough) / sampled (quick) k; serialize_with_schema at every/sampled k; seeded scripts of short writes, EINTR bursts, "
            "Ok(0), hard errors and flush failures; real kernel sinks (store to /dev/full, into a missing directory, under RLIMIT_FSIZE=k, over a longer file). "
            "A case is non-trivial when at least one fault (incl. a short write or EINTR) actually fired inside the call; distinct = distinct "
            "(target, canonical value digest, sink, api, script)",
    "exhaustive_dimensions": ["failure position k in [0,len] per (target, value, sink composition)", "flush failure per (target, value, sink composition)",
                              "premature Ok(0) position (thorough tier)"],
    "sampled_dimensions": ["targets' values (sizes 0, 1, few, <=64; thorough adds ~4 KiB and >8 KiB payloads)", "BufWriter capacity", "short-write / EINTR / mixed scripts",
                           "RLIMIT_FSIZE cut positions"],
    "expected_probes": ["fault_in_header_fields", "fault_in_len_or_tag", "fault_in_padding", "fault_in_zero_copy_block", "flush_failure", "kernel_fault_mid_stream",
                        "eintr_retried_to_success", "fault_deferred_by_bufwriter"],
    "real": REAL_COMMON + ["WriterWithPos / SchemaWriter", "Serialize::store on the kernel's file system, /dev/full, RLIMIT_FSIZE (EFBIG)"],
    "stub": SIM_IO_STUB,
    "assumptions": [
        "targets are the registered document types plus serialize-only sources (&[T] of zero-copy and deep items, SerIter, a derived struct over both); "
        "zero-sized element types and zero-length arrays are outside the universe (DESIGN.md §3)",
        "a target whose fault-free control serialization fails is skipped and counted under control_failures",
        "source integrity is judged by the tracking allocator (no block live before the call may be freed or reallocated during it, no invalid/double/"
        "wrong-layout free, no write into freed memory) and by canonical equality of the source before/after",
    ],
}

DOC_ASSUMPTIONS = [
    "documents are the ~68 registered concrete types (DESIGN.md §3) with seeded values; zero-sized element types, zero-length arrays and exhausted "
    "inclusive ranges are outside the universe",
    "a (document, value) whose fault-free controls (serialize, full-copy read, ε-copy read at an aligned address, agreement of the two) fail is skipped and "
    "counted under control_failures: those are failures of unclaimed round-trip properties",
    "64-bit little-endian Linux",
]

META["C14"] = {
    "level": "fault_enumeration",
    "builds": ["default"],
    "rule": "per (document, value): a hard read error after exactly k served bytes and a premature EOF after exactly k bytes for EVERY k in [0,len), through the "
            "scripted source directly and through BufReader::with_capacity(c, source); fragmentation families (1-byte, primes, fixed 3, 7/1, EINTR before every read) "
            "and seeded scripts (short reads, EINTR bursts, positional splits, one terminal fault). Non-trivial: at least one fault or short read fired inside "
            "the call; distinct = distinct (document, canonical value digest, source kind, script)",
    "exhaustive_dimensions": ["failure position k in [0,len) x {hard error, premature EOF} x {plain source, BufReader} per (document, value)"],
    "sampled_dimensions": ["documents' values", "BufReader capacity", "fragmentation / EINTR scripts"],
    "expected_probes": ["fault_in_header_fields", "fault_in_len_or_tag", "fault_in_padding", "fault_in_zero_copy_block", "eintr_retried_to_success",
                        "fragmented_read_to_success", "failure_through_bufreader"],
    "real": REAL_COMMON + ["ReaderWithPos, deserialize_full of every registered document"],
    "stub": SIM_IO_STUB,
    "assumptions": DOC_ASSUMPTIONS + [
        "'same value' is canonical equality with the value read from an unfragmented std::io::Cursor over the same bytes",
        "'without corrupting memory' is judged by the tracking allocator (invalid / double / wrong-layout free, free of a block the call does not own, "
        "write into freed memory) during the call and when the returned value or error is dropped; a leak on the error path is not a C14 violation",
    ],
}

META["C11"] = {
    "level": "fault_enumeration",
    "builds": ["default"],
    "rule": "crash point k = number of durable bytes; per (document, value) EVERY k in [0,len) through deserialize_full on a cursor, deserialize_full on a source "
            "that ends at k, and deserialize_eps of the prefix placed flush against a PROT_NONE guard page; through load_full and T::mmap(flags) of a real "
            "truncated file at every k (thorough) or at every write-event boundary +-1 plus 16 seeded cuts (quick). Every case is a fault case; distinct = "
            "distinct (document, canonical value digest, entry point, k)",
    "exhaustive_dimensions": ["cut point k in [0,len) per (document, value) for the in-memory entry points (both tiers) and the file entry points (thorough)"],
    "sampled_dimensions": ["documents' values", "mmap flag set", "file-entry cut points in the quick tier"],
    "expected_probes": ["cut_in_header_fields", "cut_in_len_or_tag", "cut_in_padding", "cut_in_zero_copy_block", "empty_file", "last_byte_missing"],
    "real": REAL_COMMON + ["SliceWithPos / ReaderWithPos", "load_full and mmap on real truncated files (kernel file system, mmap-rs)"],
    "stub": ["the placement of the prefix (arena with guard page)", "the source that reports EOF at k"],
    "assumptions": DOC_ASSUMPTIONS + [
        "over-read detection for ε-copy has a slack of < unit bytes when len mod unit != 0 (DESIGN.md §11)",
        "load_mem / load_mmap zero-extend by design and are excluded by the property itself",
    ],
}

META["C10"] = {
    "level": "fault_enumeration",
    "builds": ["default"],
    "rule": "per (document, value): EVERY single-bit flip of the 29 fixed header bytes (232), the byte-reversed cookie, and minor versions (all 65536 for the first "
            "value of U64, VecString, DeepA; boundary classes {0,1,2,3,255,256,257,32768,65535} (+32 random in thorough) otherwise), each through deserialize_full "
            "and deserialize_eps, plus file loaders (load_full, load_mem, load_mmap, mmap; sampled in quick, one loader per flip in thorough). Every case is a fault "
            "case; distinct = distinct (document, canonical value digest, mutation, entry point)",
    "exhaustive_dimensions": ["single-bit flips of header bytes 0..29 x {deserialize_full, deserialize_eps} per (document, value)", "minor version 0..=65535 for three documents"],
    "sampled_dimensions": ["documents' values", "which loader / flag set sees which mutation"],
    "expected_probes": [],
    "real": REAL_COMMON + ["check_header", "the four loaders on real files"],
    "stub": ["the stored bytes (header mutation between store and load)"],
    "assumptions": DOC_ASSUMPTIONS + ["only single-field corruption is judged (the property does not order errors across fields)"],
}

META["C15"] = {
    "level": "fault_enumeration",
    "builds": ["default"],
    "rule": "per (sum-type-bearing document, value; the first values of a sum-type document are its top-level variants in order): for up to 6 tag positions of the stream "
            "(taken from the writer-side schema; first, last and a spread), EVERY one-byte tag value 0..=255 or, for word tags, {0..=N+2, 255..257, 2^16, 2^32, 2^32+1, "
            "2^56, v+256j, v+j*2^32, MAX-1, MAX}, through both deserializers. The set W of tags a family writes is learned by serializing one value per variant. Executed: "
            "tag == written (must map back to the same canonical value) and tag not in W (must be InvalidTag(tag)); a valid tag of another variant is not executed. "
            "Non-trivial: a foreign tag was injected; distinct = distinct (document, canonical value digest, tag position, tag value, mode)",
    "exhaustive_dimensions": ["one-byte tag values 0..=255 per tag position x both deserializers", "top-level variants of Option, nested Option, Bound, ControlFlow, EnumD, E1, E2, E9"],
    "sampled_dimensions": ["documents' values (which nested variants occur)", "boundary word-tag values"],
    "expected_probes": ["nested_tag", "top_level_tag", "tag_is_last_byte_of_stream", "word_tag_above_u32"],
    "real": REAL_COMMON + ["Option / Bound / ControlFlow impls and derive-generated enum (de)serializers"],
    "stub": ["the stored bytes (tag overwritten between serialize and deserialize)"],
    "assumptions": DOC_ASSUMPTIONS[:1] + ["tag positions and families are identified from serialize_with_schema rows of the fault-free run; a tag row whose parent type is not one "
                                          "of the known families is skipped and counted"],
}

META["C12"] = {
    "level": "fault_enumeration",
    "builds": ["default"],
    "rule": "per (document, value): EVERY base-address residue r in 0..128; expected Ok iff every zero-copy block recorded by the writer (offset, unit) satisfies "
            "(base+r+offset) mod unit = 0, otherwise AlignmentError; every borrowed part of an Ok result is aligned for its element type and inside the buffer. "
            "Non-trivial: a placement that is not 16-byte aligned; distinct = distinct (document, canonical value digest, residue)",
    "exhaustive_dimensions": ["base-address residue 0..128 per (document, value)"],
    "sampled_dimensions": ["documents' values (which blocks exist: None/Some, empty/non-empty, units 1..128; the unit-128 documents exist so that residue 64 is distinguishable from 0)"],
    "expected_probes": ["byte_aligned_stream_ok_everywhere", "stream_with_empty_aligned_block_refused"],
    "real": REAL_COMMON + ["SliceWithPos::align and every ε-copy deserializer"],
    "stub": ["the placement of the buffer (arena owned by the simulator)"],
    "assumptions": DOC_ASSUMPTIONS + ["the block list is the writer-side schema of the fault-free run (rows produced by write_bytes), independent of the reader-side check under test"],
}

WORLD_REAL = REAL_COMMON + ["Serialize::store, load_full, load_mem, load_mmap, mmap on real files in a private scratch directory (kernel file system, mmap, munmap, mprotect, madvise)",
                            "mmap-rs", "real OS threads (three actors); MemCase really is moved, shared, read and dropped across threads"]
WORLD_STUB = ["the choice of which actor runs which operation next (baton scheduler: exactly one runnable thread)",
              "the global allocator's bookkeeping (tracking allocator: junk fill, poison, quarantine, suppression of invalid frees) over the real system allocator",
              "mmap/munmap/mprotect/madvise entry points (interposed to keep the mapping table and inject ENOMEM / EACCES; forwarded to the kernel)",
              "damage to stored bytes between store and load (header flips, foreign tags, truncation)"]

META["C08"] = {
    "level": "exploration",
    "builds": ["default", "nommap"],
    "rule": "seeded schedules of 6..18 operations over 3 actor threads and a pool of files/structures: store (fresh file or over a longer existing one), load with each of the "
            "loaders available in the build x all 8 flag sets, verify, move/re-box, shared read by two threads, unlink, rewrite the file under copying loaders, drop on any thread. "
            "After every step every live structure is compared with the reference (deserialize of the file bytes), its borrowed parts with its backing region, the region with "
            "the alignment/length/zero-tail rules, the madvise advice with the flags, regions pairwise. A run is non-trivial when a structure was dropped on a thread other "
            "than the one that loaded it; distinct = distinct op lists among those",
    "exhaustive_dimensions": [],
    "sampled_dimensions": ["operation schedules", "documents and values (file lengths of every residue mod 64 via Padded<..>)", "loader x flag set", "actor assignment"],
    "expected_probes": ["read_on_other_thread", "dropped_on_other_thread", "case_moved_to_new_address", "shared_read_two_threads", "read_after_unlink",
                        "read_after_file_rewritten", "store_over_longer_file", "drop_probe_saw_intact_data",
                        "file_len_multiple_of_page", "file_len_page_plus_one", "file_len_page_minus_one", "file_larger_than_8KiB"],
    "real": WORLD_REAL,
    "stub": WORLD_STUB[:3],
    "assumptions": DOC_ASSUMPTIONS[:1] + [
        "MemCase has no interior mutability: the schedule matters through ownership transfer, drop site, allocator reuse and file events between load and use",
        "region rules: heap region aligned to MemoryAlignment, copying loaders' length = file length rounded up to a multiple of 16 within one page, zero tail; mmap length = file length",
        "flag sets containing TRANSPARENT_HUGE_PAGES are run only if the kernel accepts MADV_HUGEPAGE when asked directly by the harness (reported as env.thp_unsupported_skipped otherwise)",
        "the compile-time facet (MemCase<&'static [u64]>: Send + Sync) is observed by the probe crate probes/send_sync",
    ],
}

META["C09"] = {
    "level": "exploration",
    "builds": ["default", "nommap"],
    "rule": "the C08 schedules plus failing loads on every loader (wrong type, single-bit header corruption, reversed cookie, foreign tag, truncation at any per-mille, empty file, "
            "mmap -> ENOMEM, mprotect -> EACCES) and the escape client (copy a &'static slice out of the case through Deref / AsRef, read it after the case was dropped). Oracle = "
            "conservation at the end of every run (no library-made heap block, no loader mapping live), release exactly once with the right layout / range, region live and unchanged "
            "while its owner lives, structure dropped before its backing (DropProbe). A run is non-trivial when it contains a failing load, a cross-thread drop or a read through an "
            "escaped reference; distinct = distinct op lists among those",
    "exhaustive_dimensions": [],
    "sampled_dimensions": ["operation schedules", "failure cause x loader x flag set", "documents and values", "actor assignment"],
    "expected_probes": ["read_on_other_thread", "dropped_on_other_thread", "drop_probe_saw_intact_data", "escaped_static_ref.deref-copy", "escaped_static_ref.asref-copy", "escaped_static_ref.field-copy"],
    "real": WORLD_REAL,
    "stub": WORLD_STUB,
    "assumptions": DOC_ASSUMPTIONS[:1] + [
        "a leak is library-made memory (allocated inside a library call) or a loader-made mapping still live after every structure and every error value of the run was dropped",
        "madvise failure is not injected: mmap-rs 0.6.1 itself leaks the mapping on that path (dependency, outside the repository)",
        "use-after-release through an escaped 'static reference is decided from the recorded history (owner dropped => region released); the heap case additionally reads the quarantined block and shows the poison",
        "the lifetime facet (deserialize_eps results cannot outlive their buffer) is rustc's; it is observed by the probe crates probes/eps_outlive (must not compile) and probes/escape_static",
    ],
}

META["C08"]["probes"] = [
    {"name": "send_sync", "class": "C08/memcase-not-send-sync", "control": "control", "bins": [("control", "compiles"), ("send_sync", "compiles")], "expect": "compiles"},
]
META["C09"]["probes"] = [
    {"name": "eps_outlive", "class": "C09/eps-result-outlives-buffer", "control": "control", "expect": "fails",
     "error_pattern": r"E0515|E0597|E0505|does not live long enough|borrowed value",
     "bins": [("control", "compiles"), ("outlive_return", "fails"), ("outlive_scope", "fails"), ("outlive_field", "fails"), ("outlive_drop", "fails")]},
    {"name": "escape_static", "class": "C09/escape-observation", "expect": "observe",
     "bins": [("escape_deref", "observe"), ("escape_asref", "observe"), ("escape_field", "observe")]},
]

META["C08"]["secondary_measure"] = "distinct schedules reached = distinct sequences of (operation kind, actor(s), loader) ignoring documents, values and flags; exact union over all workers, per build"
META["C09"]["secondary_measure"] = "distinct schedules reached = distinct sequences of (operation kind, actor(s), loader, kind of damage / injected system-call fault) ignoring documents, values and flags; exact union over all workers, per build"
META["C19"]["secondary_measure"] = "distinct history shapes = distinct sequences of operation kinds (empty writes distinguished) ignoring arguments; exact union over all workers"

# ---- wording updates after the last harness changes (kept separate so that the history above stays readable)
_BIG = " Streams above 24 KiB (one payload of hundreds of KiB per sequence document) have their fault positions sampled: first/last 64, multiples of 4 KiB / 8 KiB / 64 KiB (-1, 0, +1) and 128 seeded positions."
for _p in ("C11", "C13", "C14"):
    META[_p]["rule"] += _BIG
    META[_p]["exhaustive_dimensions"] = [d + " (streams up to 24 KiB)" for d in META[_p]["exhaustive_dimensions"]]
META["C13"]["rule"] += " Kernel-level: scripted answers (short writes, EINTR, ENOSPC, EIO, 0) to the write(2) calls of the real BufWriter<File> inside store."
META["C14"]["rule"] += " Source kinds: scripted source under std read_exact, BufReader (capacities incl. 0), and a source implementing the library's ReadNoStd directly."
META["C19"]["rule"] += " The provided methods read_exact / write_all / read_to_end are in the alphabet (compared on success; state after a failed read_exact is unspecified by std and re-synchronised; an empty write_all is not executed); one history in sixteen has up to 400 operations."
META["C12"]["rule"] += " No fault-free control is required: residue 0 is judged like every other; the value of an Ok result is compared with the read at a page-aligned address when that read succeeds."
META["C10"]["rule"] += " Each path is judged against its own fault-free reference (full-copy / ε-copy); a path without one is skipped and counted."
DOC_ASSUMPTIONS[0] = DOC_ASSUMPTIONS[0].replace("~68", "97")
for _p in ("C10", "C11", "C12", "C14", "C15"):
    META[_p]["assumptions"] = [a.replace("~68", "97") for a in META[_p]["assumptions"]]
META["C11"]["assumptions"] = [a for a in META["C11"]["assumptions"] if not a.startswith("a (document, value) whose fault-free controls")] + ["no fault-free read is needed: only serialization must succeed"]
META["C12"]["assumptions"] = [a for a in META["C12"]["assumptions"] if not a.startswith("a (document, value) whose fault-free controls")] + ["no fault-free read is needed: only serialization must succeed"]
META["C14"]["assumptions"] = [a.replace("(serialize, full-copy read, ε-copy read at an aligned address, agreement of the two)", "(serialize, unfragmented full-copy read)") for a in META["C14"]["assumptions"]]
META["C08"]["assumptions"] = [a for a in META["C08"]["assumptions"] if not a.startswith("region rules")] + [
    "region rules (narrowed to the statement): region aligned to MemoryAlignment and at least as long as the file, zero tail for the copying loaders, borrowed parts inside the region; madvise advice and a longer mmap are NOTEs, not violations",
    "reference of every loader (load_full included) = ε-copy deserialization of the file bytes"]
META["C09"]["assumptions"] = META["C09"]["assumptions"] + [
    "a leak is reported only if a second execution of the same case leaks again; a munmap that trims a loader mapping is tracked, not flagged; a second munmap of exactly a released loader range is a double release",
    "the tracker protects only blocks that were not made inside a library call (source, sink, harness) against being freed during a library call"]
