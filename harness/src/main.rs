//! epsim — deterministic simulation with fault injection for ε-serde.
//!
//!   epsim run    --prop Cxx --seed S --tier quick|thorough --worker w --workers W --out FILE --scratch DIR
//!   epsim replay FILE        (FILE = {"property":..,"class":..,"case":..})   prints `REPLAY class=<class>|clean`
//!   epsim shrink FILE        prints the minimised replay JSON on stdout
//!   epsim case   --prop Cxx --seed S --tier T --unit U --sub K      prints the case executed at (U,K)
//!   epsim distinct FILE...   counts distinct u64 digests over binary files
#![allow(clippy::all)]
#![allow(static_mut_refs, dangerous_implicit_autorefs, dead_code, unused_imports, unused_variables)]

mod canon;
mod ctx;
mod docs;
mod place;
mod props;
mod rng;
mod sched;
mod simio;
mod sys;
mod tracker;

use ctx::{Ctx, Tier, Violation};
use std::io::Write;
use std::sync::atomic::Ordering;

#[global_allocator]
static GLOBAL: tracker::Tracker = tracker::Tracker;

pub struct PropDef {
    pub id: &'static str,
    pub n_units: fn(Tier) -> u64,
    pub run_unit: fn(&mut Ctx, u64),
    pub replay: fn(&serde_json::Value, &mut Ctx) -> Result<Option<Violation>, String>,
    pub shrink: fn(&serde_json::Value) -> Vec<serde_json::Value>,
    /// the case executed at (unit, sub) — used to turn a crashed worker's last announcement into a replay file
    pub case_at: fn(&mut Ctx, u64, u64) -> Option<serde_json::Value>,
}

fn props() -> Vec<PropDef> {
    props::all()
}

extern "C" fn on_fatal_signal(sig: libc::c_int) {
    // async-signal-safe: format by hand, write(2), _exit
    let mut buf = [0u8; 96];
    let mut n = 0;
    let mut put = |s: &[u8], buf: &mut [u8; 96], n: &mut usize| {
        for &b in s {
            if *n < 95 {
                buf[*n] = b;
                *n += 1;
            }
        }
    };
    fn num(mut v: u64, out: &mut [u8; 20]) -> &[u8] {
        let mut i = 20;
        if v == 0 {
            i -= 1;
            out[i] = b'0';
        }
        while v > 0 {
            i -= 1;
            out[i] = b'0' + (v % 10) as u8;
            v /= 10;
        }
        &out[i..]
    }
    let mut t = [0u8; 20];
    put(b"\nCRASH unit=", &mut buf, &mut n);
    put(num(ctx::CUR_UNIT.load(Ordering::Relaxed), &mut t), &mut buf, &mut n);
    put(b" sub=", &mut buf, &mut n);
    put(num(ctx::CUR_SUB.load(Ordering::Relaxed), &mut t), &mut buf, &mut n);
    put(b" sig=", &mut buf, &mut n);
    put(num(sig as u64, &mut t), &mut buf, &mut n);
    put(b"\n", &mut buf, &mut n);
    unsafe {
        libc::write(1, buf.as_ptr() as *const _, n);
        libc::_exit(100 + sig);
    }
}

/// A runaway library (e.g. a loop driven by a garbage length after a swallowed error) must end in an
/// allocation failure -> abort -> crash report with a replay, not in the kernel's OOM killer taking
/// the worker (which the driver can only report as an environment error).
fn limit_address_space() {
    unsafe {
        let mut cur: libc::rlimit = std::mem::zeroed();
        if libc::getrlimit(libc::RLIMIT_AS, &mut cur) == 0 {
            let want: libc::rlim_t = 12 << 30;
            cur.rlim_cur = if cur.rlim_max == libc::RLIM_INFINITY { want } else { want.min(cur.rlim_max) };
            libc::setrlimit(libc::RLIMIT_AS, &cur);
        }
    }
}

fn install_signal_handlers() {
    unsafe {
        // alternate stack so that a stack overflow is reported too
        let sz = 1 << 16;
        let stack = libc::mmap(std::ptr::null_mut(), sz, libc::PROT_READ | libc::PROT_WRITE, libc::MAP_PRIVATE | libc::MAP_ANONYMOUS, -1, 0);
        let ss = libc::stack_t { ss_sp: stack, ss_flags: 0, ss_size: sz };
        libc::sigaltstack(&ss, std::ptr::null_mut());
        for sig in [libc::SIGSEGV, libc::SIGBUS, libc::SIGABRT, libc::SIGILL, libc::SIGFPE] {
            let mut sa: libc::sigaction = std::mem::zeroed();
            sa.sa_sigaction = on_fatal_signal as usize;
            sa.sa_flags = libc::SA_ONSTACK;
            libc::sigaction(sig, &sa, std::ptr::null_mut());
        }
        // a file-size limit is used as a fault (C13): the kernel must return EFBIG, not kill us
        libc::signal(libc::SIGXFSZ, libc::SIG_IGN);
    }
}

fn arg<'a>(args: &'a [String], key: &str) -> Option<&'a str> {
    args.iter().position(|a| a == key).and_then(|i| args.get(i + 1)).map(|s| s.as_str())
}

fn die(msg: &str) -> ! {
    eprintln!("HARNESS-ERROR {}", msg);
    std::process::exit(2);
}

fn tier_of(s: &str) -> Tier {
    match s {
        "quick" => Tier::Quick,
        "thorough" => Tier::Thorough,
        _ => die("bad --tier"),
    }
}

fn find_prop(id: &str) -> PropDef {
    props().into_iter().find(|p| p.id == id).unwrap_or_else(|| die(&format!("unknown property {}", id)))
}

fn static_id(p: &PropDef) -> &'static str {
    p.id
}

fn main() {
    let args: Vec<String> = std::env::args().collect();
    if args.len() < 2 {
        die("usage: epsim run|replay|shrink|case|distinct ...");
    }
    install_signal_handlers();
    ctx::install_panic_hook();
    let scratch_default = std::env::temp_dir().join(format!("epsim-{}", std::process::id()));
    match args[1].as_str() {
        "run" => {
            limit_address_space();
            let prop = find_prop(arg(&args, "--prop").unwrap_or_else(|| die("--prop")));
            let seed: u64 = arg(&args, "--seed").and_then(|s| s.parse().ok()).unwrap_or(1);
            let tier = tier_of(arg(&args, "--tier").unwrap_or("quick"));
            let w: u64 = arg(&args, "--worker").and_then(|s| s.parse().ok()).unwrap_or(0);
            let nw: u64 = arg(&args, "--workers").and_then(|s| s.parse().ok()).unwrap_or(1);
            let out = arg(&args, "--out").unwrap_or_else(|| die("--out")).to_string();
            let scratch = arg(&args, "--scratch").map(std::path::PathBuf::from).unwrap_or(scratch_default);
            let limit: Option<u64> = arg(&args, "--units").and_then(|s| s.parse().ok());
            std::fs::create_dir_all(&scratch).unwrap_or_else(|e| die(&format!("scratch dir: {}", e)));
            let mut ctx = Ctx::new(static_id(&prop), seed, tier, scratch.clone());
            let n = limit.unwrap_or((prop.n_units)(tier)).min((prop.n_units)(tier));
            let t0 = std::time::Instant::now();
            let mut u = w;
            while u < n {
                (prop.run_unit)(&mut ctx, u);
                ctx.units_done += 1;
                u += nw;
            }
            let wall = t0.elapsed().as_secs_f64();
            // distinct non-trivial digests go to a side file (binary u64 LE), the driver unions them
            let dig_path = format!("{}.dig", out);
            {
                let mut f = std::io::BufWriter::new(std::fs::File::create(&dig_path).unwrap_or_else(|e| die(&format!("{}: {}", dig_path, e))));
                let mut v: Vec<u64> = ctx.nontrivial.iter().copied().collect();
                v.sort_unstable();
                for d in v {
                    f.write_all(&d.to_le_bytes()).unwrap();
                }
            }
            if !ctx.aux.is_empty() {
                let p2 = format!("{}.dig2", out);
                let mut f = std::io::BufWriter::new(std::fs::File::create(&p2).unwrap_or_else(|e| die(&format!("{}: {}", p2, e))));
                let mut v: Vec<u64> = ctx.aux.iter().copied().collect();
                v.sort_unstable();
                for d in v {
                    f.write_all(&d.to_le_bytes()).unwrap();
                }
            }
            let mut docs: Vec<&String> = ctx.docs_seen.iter().collect();
            docs.sort();
            let j = serde_json::json!({
                "property": prop.id, "seed": seed, "worker": w, "workers": nw,
                "units_total": n, "units_done": ctx.units_done,
                "evaluations": ctx.evaluations, "logical_steps": ctx.logical_steps,
                "distinct_nontrivial_local": ctx.nontrivial.len(),
                "log_digest": format!("{:016x}", ctx.log_digest),
                "counters": ctx.counters, "violation_count": ctx.violation_count,
                "violations": ctx.violations, "samples": ctx.samples, "docs": docs,
                "wall_s": wall,
                "features": { "mmap": cfg!(feature = "mmap") },
            });
            std::fs::write(&out, serde_json::to_vec(&j).unwrap()).unwrap_or_else(|e| die(&format!("{}: {}", out, e)));
            let _ = std::fs::remove_dir_all(&scratch);
            println!("DONE worker={} evaluations={}", w, ctx.evaluations);
        }
        "replay" | "shrink" => {
            limit_address_space();
            let path = args.get(2).unwrap_or_else(|| die("file"));
            let txt = std::fs::read_to_string(path).unwrap_or_else(|e| die(&format!("{}: {}", path, e)));
            let j: serde_json::Value = serde_json::from_str(&txt).unwrap_or_else(|e| die(&format!("{}: {}", path, e)));
            let pid = j["property"].as_str().unwrap_or_else(|| die("replay file has no property"));
            let prop = find_prop(pid);
            let seed = j["seed"].as_u64().unwrap_or(1);
            let scratch = arg(&args, "--scratch").map(std::path::PathBuf::from).unwrap_or(scratch_default);
            std::fs::create_dir_all(&scratch).unwrap_or_else(|e| die(&format!("scratch dir: {}", e)));
            let tier = tier_of(j["tier"].as_str().unwrap_or("quick"));
            let mut ctx = Ctx::new(static_id(&prop), seed, tier, scratch.clone());
            if args[1] == "replay" {
                ctx::QUIET_PANICS.store(false, Ordering::Relaxed);
                ctx.begin(j["unit"].as_u64().unwrap_or(0), j["sub"].as_u64().unwrap_or(0));
                let r = (prop.replay)(&j["case"], &mut ctx);
                let _ = std::fs::remove_dir_all(&scratch);
                match r {
                    Err(e) => die(&format!("cannot replay: {}", e)),
                    Ok(None) => println!("REPLAY clean"),
                    Ok(Some(v)) => {
                        println!("REPLAY class={}", v.class);
                        println!("DETAIL {}", v.detail);
                    }
                }
            } else {
                // greedy delta debugging while the same violation class persists
                let want = j["class"].as_str().unwrap_or_else(|| die("replay file has no class")).to_string();
                let mut cur = j["case"].clone();
                let mut detail = j["detail"].as_str().unwrap_or("").to_string();
                let mut rounds = 0;
                let mut tried = 0u64;
                'outer: loop {
                    rounds += 1;
                    if rounds > 200 {
                        break;
                    }
                    for cand in (prop.shrink)(&cur) {
                        tried += 1;
                        if tried > 20000 {
                            break 'outer;
                        }
                        if let Ok(Some(v)) = (prop.replay)(&cand, &mut ctx) {
                            if v.class == want {
                                cur = cand;
                                detail = v.detail;
                                continue 'outer;
                            }
                        }
                    }
                    break;
                }
                let _ = std::fs::remove_dir_all(&scratch);
                let mut o = j.clone();
                o["case"] = cur;
                o["detail"] = serde_json::Value::String(detail);
                o["minimised"] = serde_json::json!({"rounds": rounds, "candidates_tried": tried});
                println!("{}", serde_json::to_string_pretty(&o).unwrap());
            }
        }
        "candidates" => {
            // print the shrink candidates of a replay file (one JSON array); used by the driver to minimise
            // violations whose class is a process death, one candidate per child process
            let path = args.get(2).unwrap_or_else(|| die("file"));
            let txt = std::fs::read_to_string(path).unwrap_or_else(|e| die(&format!("{}: {}", path, e)));
            let j: serde_json::Value = serde_json::from_str(&txt).unwrap_or_else(|e| die(&format!("{}: {}", path, e)));
            let prop = find_prop(j["property"].as_str().unwrap_or_else(|| die("replay file has no property")));
            let c = (prop.shrink)(&j["case"]);
            println!("{}", serde_json::to_string(&c).unwrap());
        }
        "case" => {
            let prop = find_prop(arg(&args, "--prop").unwrap_or_else(|| die("--prop")));
            let seed: u64 = arg(&args, "--seed").and_then(|s| s.parse().ok()).unwrap_or(1);
            let tier = tier_of(arg(&args, "--tier").unwrap_or("quick"));
            let unit: u64 = arg(&args, "--unit").and_then(|s| s.parse().ok()).unwrap_or_else(|| die("--unit"));
            let sub: u64 = arg(&args, "--sub").and_then(|s| s.parse().ok()).unwrap_or_else(|| die("--sub"));
            let scratch = scratch_default;
            std::fs::create_dir_all(&scratch).unwrap_or_else(|e| die(&format!("scratch dir: {}", e)));
            let mut ctx = Ctx::new(static_id(&prop), seed, tier, scratch.clone());
            let c = (prop.case_at)(&mut ctx, unit, sub);
            let _ = std::fs::remove_dir_all(&scratch);
            match c {
                Some(c) => println!("{}", serde_json::to_string(&c).unwrap()),
                None => die("no such case"),
            }
        }
        "distinct" => {
            let mut all: Vec<u64> = Vec::new();
            for p in &args[2..] {
                if p.starts_with("--") {
                    break;
                }
                let b = std::fs::read(p).unwrap_or_else(|e| die(&format!("{}: {}", p, e)));
                all.extend(b.chunks_exact(8).map(|c| u64::from_le_bytes(c.try_into().unwrap())));
            }
            all.sort_unstable();
            all.dedup();
            println!("{}", all.len());
        }
        _ => die("unknown subcommand"),
    }
}
