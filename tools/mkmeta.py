import json, os, re, glob
needs = {
 "C08-A": "load_mem only; a file length with residue 1..=48 modulo 64; a heap block whose padding is not already zero (junk-filled allocator); someone reading the padding tail",
 "C08-B": "a write fault that surfaces exactly at the final flush of the buffered tail (store to /dev/full of a value smaller than the BufWriter buffer, or a sink whose flush fails); ordinary store + load is unaffected. NOTE: this is a writer-fault behaviour, i.e. property C13 rather than C08's fault-free 'store writes exactly the serialized bytes'",
 "C09-A": "a load that fails by *panicking* (file truncated inside a zero-copy payload -> slice index out of range) and a client that survives the panic; Err-returning failures are cleaned up correctly",
 "C09-B": "an I/O failure between stat/open and deserialization in load_mem: read(2) error (EIO), file shrunk between stat and read, or a path naming a directory (EISDIR)",
 "C10-A": "a file whose first 8 bytes are the true byte reversal of the magic cookie (computed independently of the library's MAGIC_REV constant)",
 "C10-B": "a single-bit flip of bit 5, 6 or 7 of header byte 12 (pointer width): values b with b & 0x1f == 8 are accepted",
 "C11-A": "full-copy mode; a stream ending with an empty zero-copy sequence of unit > 1 at an unaligned position; a cut inside that trailing padding",
 "C11-B": "the mmap entry point; a truncated file; a cut point whose round-up to 16 reaches the end of the stream (the kernel zero-fills the rest of the page)",
 "C12-A": "at least two non-byte zero-copy blocks with increasing unit, the smaller first, and a base residue that is a multiple of the first unit but not of the second",
 "C12-B": "a misplaced buffer and an *empty* zero-copy slice as the offending block, with no other non-empty block of equal or larger unit",
 "C13-A": "a failure visible only at flush time: a sink whose flush fails, or a buffered writer over a failing device with data smaller than the buffer",
 "C13-B": "a sink that answers Ok(0) (write zero) at some position k < len, e.g. a full &mut [u8]",
 "C14-A": "a reader that returns ErrorKind::Interrupted on the *first* read call of some request",
 "C14-B": "a read failure inside the item area of a Vec / Box<[T]> of deep-copy items during full-copy deserialization (drop of a vector whose length covers uninitialised slots)",
 "C15-A": "ε-copy mode and an Option tag byte outside {0,1}",
 "C15-B": "full-copy mode, a foreign Bound tag, and bytes after the tag that do not decode as a valid payload (tag is the last byte of the stream, or the payload is itself malformed)",
 "C19-A": "an end-relative seek while the data length is not a multiple of the alignment unit",
 "C19-B": "an empty write issued while the position is strictly past the end of the data",
 "C08-C": "load_mem only; file length with residue 1..=48 modulo 64 (the zero fill stops at the next multiple of 16); heap memory that is not already zero",
 "C08-D": "a sequence: store a long value, then a shorter one at the same path (store no longer truncates); loaders ignore trailing bytes, only the file bytes differ",
 "C09-C": "a read fault after metadata() and open() succeeded in load_mem (EIO, file shrunk between stat and read, a directory): the raw region has no owner across the fallible read",
 "C09-D": "a client structure whose Drop looks at its borrowed data (MemCase now releases the backing memory in its own Drop, before the structure's drop glue runs)",
 "C10-C": "a root type whose AlignHash implementation does not advance the caller's offset (Vec, Box<[T]>, Option, String, derived deep-copy structs) and any bit flip in header bytes 21..29",
 "C10-D": "a file whose first 8 bytes are the true byte reversal of the magic cookie (MAGIC_REV rewritten as a mistyped literal)",
 "C11-C": "two cooperating sites (lazy padding skip + early return for len == 0): full-copy mode, an empty zero-copy vector read last at an unaligned position, a cut inside its trailing padding",
 "C11-D": "mmap only; a truncated file whose missing tail fits into the round-up to 16 of the mapping length",
 "C12-C": "a misplaced buffer in which an empty zero-copy slice is the only block out of place",
 "C12-D": "two sites (skip the check when the unit <= cached alignment; cache the alignment of base+pos instead of the base): increasing units, a specific stream offset and base residue",
 "C13-C": "serialize_with_schema (the only entry point left without a final flush) into a sink where flush matters (failing flush, BufWriter)",
 "C13-D": "a sink that answers Ok(0) exactly at a one-byte write (padding byte, Option tag, bool, u8)",
 "C14-C": "a short read followed by ErrorKind::Interrupted inside the same read_exact request",
 "C14-D": "a reader failure inside the payload of a [T; N] of deep-copy items with drop glue (the guard counts the slot before it is written)",
 "C15-C": "full-copy mode, a foreign Bound tag followed by bytes that do not deserialize as the payload (tag is the last byte of the stream / nested malformed payload)",
 "C15-D": "ε-copy mode and a foreign tag on a sum type nested inside Option::Some (payload errors are turned into None)",
 "C19-C": "a read (even of an empty buffer) while the position is strictly past the end, then an observation of the position or a write",
 "C19-D": "a base position or seek result above i64::MAX (relative seeks computed in i64; stream_position override removed)",
 "C08-E": "two sites (a shared read_zero_extended helper that zeroes to 16, load_mem's capacity rounded to 64): load_mem only, file length residue 1..=48 mod 64, a recycled non-zero heap block, someone reading the tail",
 "C08-F": "load_full only; a document containing a 32- or 64-byte aligned zero-copy struct at a stream position that needs more than 16 bytes of padding (stack buffer of 16 bytes for skipping padding)",
 "C08-G": "load_mmap with a file length that is a multiple of 16 returns a private mapping of the file instead of a copy: needs the sequence load, rewrite the file in place, read (a truncating rewrite gives SIGBUS)",
 "C08-H": "load_mem, residue 1..=48 mod 64 and a dirty heap block obtained by a sequence (load a file of non-zero bytes, drop it, load a shorter file of the same rounded size)",
 "C09-E": "the mmap() loader only, and a load that fails by panicking (payload cut inside a zero-copy vector) with a caller that survives the panic",
 "C09-F": "the no-mmap feature configuration only (Drop of the backend guard gated on feature = mmap): any failing load_mem after the file was read",
 "C09-G": "field order of MemCase swapped (backend declared before the structure): needs a client structure whose Drop reads its borrowed data; with load_mem the stale read even succeeds unless freed memory is poisoned",
 "C09-H": "load_mem frees its buffer twice when the read fails after metadata(), open() and the allocation succeeded (directory path, file shrunk, injected EIO)",
 "C13-E": "one library-level write split into three or more pieces by a writer returning short counts (second short write of the same buffer skips bytes or panics)",
 "C13-F": "store() only, three cooperating sites: a value smaller than the 8 KiB buffer stored on a failing device (/dev/full) returns Ok because only BufWriter's drop flushes",
 "C14-E": "a short read followed by ErrorKind::Interrupted inside the same request (the fill loop treats Interrupted as fatal)",
 "C14-F": "a reader failure inside the payload of a [T; N] of deep-copy items: the guard counts the slot before it is written and drops an uninitialised stack slot",
 "C10-E": "a root type whose AlignHash does not advance the caller's offset (Vec, Box<[T]>, Option, ControlFlow, String, (), derived deep-copy structs) and any bit flip in header bytes 21..29",
 "C10-F": "a flip of bit 5, 6 or 7 of the pointer-width byte (the width is compared after an 8-bit shift that drops the high bits)",
 "C11-E": "the mmap entry point only; a truncated file whose cut is at most 15 bytes before the point the deserializer needs and whose missing tail is zero or uninspected",
 "C11-F": "two cooperating edits in the full-copy reader (deferred padding + early return on empty reads): a stream ending with an empty aligned zero-copy sequence, cut between the end of the length field and the end of the stream",
 "C12-E": "a misplaced buffer where every block misaligned at that address sits at a stream offset that needs no padding (the address check only runs when padding is skipped)",
 "C12-F": "inside deserialize_eps, a NON-generic field of a derived deep-copy struct that is a single zero-copy value (zero-copy struct, tuple, repr(align(32)) struct): the full-copy helper swallows the alignment error",
 "C15-E": "a tag byte outside {0,1} decoded by the FULL-copy Option implementation (also inside ε-copy deserialization for non-generic Option fields of derived structs)",
 "C15-F": "ε-copy Bound: a foreign tag followed by bytes that do not decode as the endpoint (tag at the end of the stream, nested malformed payload)",
 "C19-E": "spare capacity, a write that crosses into a new alignment unit and ends off a unit boundary, then a later (even empty) write past the end, and recycled non-zero heap memory (set_len instead of resize leaves the tail of the last unit uninitialised)",
 "C19-F": "a relative seek whose base or result is at or above 2^63",
}
confirm = {}
matrix = {}
if os.path.exists('/verif/sensitivity/matrix.tsv'):
    for l in open('/verif/sensitivity/matrix.tsv'):
        f = l.rstrip('\n').split('\t')
        matrix[f[0]] = f[1:]
for d in sorted(glob.glob('/verif/seeded/*/')):
    n = os.path.basename(d.rstrip('/'))
    prop = n.split('-')[0]
    row = matrix.get('seeded-'+n, [])
    caught = [c for c in row if ':1' in c]
    meta = {
      "property": prop,
      "origin": "independent sub-agent given only the property text and a scratch worktree of /repo (nothing from /verif)",
      "base_commit": "0801623 (pinned tree + guarded hook + fix commits)",
      "needs_to_manifest": needs[n],
      "confirmed": {
         "how": "scratch worktree of /repo under /tmp (removed afterwards) for %s; git apply patch.diff; copy demo.rs to epserde/tests/; cargo test --workspace --no-fail-fast --offline; git apply -R; cargo test --test demo" % prop,
         "suite_with_change": "all 84 pre-existing tests (73 baseline + doctests) pass",
         "demo_with_change": "fails",
         "demo_without_change": "passes",
      },
      "checks_run": "tools/run_seeded.sh: quick tier of all nine checks against a scratch worktree with the patch applied (VERIF_REPO), seed 1",
      "detected_by": caught,
      "matrix_row": row,
    }
    json.dump(meta, open(d+'meta.json','w'), indent=1)
print("ok", len(matrix))
