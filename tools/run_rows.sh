#!/bin/bash
# usage: tools/run_rows.sh <name>=<patch> ...   re-runs the given matrix rows (all nine checks) and replaces them in sensitivity/matrix.tsv
cd /verif
PROPS="C08 C09 C10 C11 C12 C13 C14 C15 C19"
mkdir -p build/matrix
one() {
  name=${1%%=*}; patch=${1#*=}
  out=build/matrix/$name.txt
  TESTS=${TESTS:-0} tools/try_patch.sh $patch $PROPS > $out 2>&1
  line="$name"
  for P in $PROPS; do
    e=$(grep -E "^exit\($P\)=" $out | cut -d= -f2)
    cls=$(grep -E "violation class $P/" $out | head -1 | sed -E 's/.*violation class ([^ ]+).*/\1/')
    line="$line\t$P:${e:-?}${cls:+[$cls]}"
  done
  echo -e "$line" > build/matrix/$name.row
}
export -f one; export PROPS
printf "%s\n" "$@" | xargs -P ${PAR:-3} -L 1 bash -c 'one $0'
for a in "$@"; do name=${a%%=*}; grep -v -P "^$name\t" sensitivity/matrix.tsv > sensitivity/matrix.tmp; cat build/matrix/$name.row >> sensitivity/matrix.tmp; sort sensitivity/matrix.tmp > sensitivity/matrix.tsv; rm -f sensitivity/matrix.tmp; done
