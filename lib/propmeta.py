"""Static description of each claimed check (level, rule, real/stub components, assumptions).
Counts are never here: every number in an evidence file is measured by the run that writes it."""

REAL_COMMON = [
    "all of epserde and epserde-derive, compiled from /repo's working tree (derive macro patched in from /repo/epserde-derive)",
    "std::io::{Write::write_all, Read::read_exact, BufWriter, BufReader, Cursor}",
    "the system allocator underneath the tracking allocator",
]

META = {
    "C19": {
        "level": "exploration",
        "builds": ["default"],
        "rule": "seeded operation histories (1..64 ops, per-run random alphabet subset, alignment type A2..A256, optional with_capacity) "
                "executed step by step against std::io::Cursor<Vec<u8>>; a history is non-trivial when at least one write was issued with the "
                "position past the end of the data; distinct = distinct (alignment, capacity, op list) among those",
        "exhaustive_dimensions": [],
        "sampled_dimensions": ["operation histories", "alignment type", "initial capacity", "enabled-operation subset per run"],
        "expected_probes": ["write_past_end", "empty_write_past_end", "gap_zero_fill", "seek_error"],
        "real": ["epserde::utils::AlignedCursor (Read/Write/Seek impls, accessors, Clone, into_parts) from /repo's working tree",
                 "std::io::Cursor<Vec<u8>> as the executable reference model"],
        "stub": ["none: the operation history is the only simulated input"],
        "assumptions": [
            "std::io::Cursor<Vec<u8>> of the installed toolchain is the reference behaviour",
            "only operations AlignedCursor itself implements are in the alphabet (provided methods such as read_exact are std compositions)",
            "a write is executed only when position+len <= 1 MiB (beyond that both cursors die in the allocator)",
            "64-bit little-endian Linux",
        ],
    },
}
