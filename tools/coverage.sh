#!/bin/bash
# Reach of the quick tiers into the library: builds the harness with `-C instrument-coverage` (nightly
# toolchain + its llvm-tools) in a scratch directory under /tmp, runs all 16 workers of every check, and prints
# region coverage of /repo/epserde/src plus the uncovered lines. Not a registered check; scratch is removed.
set -e
D=/tmp/covbuild-$$
TB=$(dirname $(rustc +nightly --print target-libdir))/bin
mkdir -p $D && cd $D
sed -e 's#@REPO@#/repo#g' -e 's#@SRC@#/verif/harness#g' /verif/harness/Cargo.toml.in > Cargo.toml
cp /verif/harness/Cargo.lock .
LLVM_PROFILE_FILE="$D/build-%p.profraw" CARGO_NET_OFFLINE=true RUSTFLAGS="--cfg epserde_verif -C instrument-coverage" cargo +nightly build --release --offline --features mmap --quiet
for P in C08 C09 C10 C11 C12 C13 C14 C15 C19; do for w in $(seq 0 15); do echo "$P $w"; done; done | \
  xargs -P 16 -L 1 bash -c 'LLVM_PROFILE_FILE="'$D'/$0-$1.profraw" RUST_BACKTRACE=0 '$D'/target/release/epsim run --prop $0 --seed ${VERIF_SEED:-1} --tier quick --worker $1 --workers 16 --out '$D'/o-$0-$1.json --scratch '$D'/s-$0-$1 >/dev/null 2>&1'
rm -f $D/build-*.profraw
$TB/llvm-profdata merge -sparse $D/*.profraw -o $D/all.profdata
$TB/llvm-cov report $D/target/release/epsim -instr-profile=$D/all.profdata --ignore-filename-regex='(registry|rustc|harness)' 2>/dev/null | grep -E "epserde|TOTAL" | awk '{printf "%-50s regions %5s missed %4s  %s\n", $1, $2, $3, $4}'
echo "--- uncovered lines"
for f in $(cd /repo/epserde/src && find . -name '*.rs' | sort); do
  $TB/llvm-cov show $D/target/release/epsim -instr-profile=$D/all.profdata /repo/epserde/src/$f --show-line-counts-or-regions 2>/dev/null | grep -E "^\s+[0-9]+\|\s+0\|" | sed "s#^#$f #" | cut -c1-160
done
cd /; rm -rf $D
