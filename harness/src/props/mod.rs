//! One module per claimed property: generate / execute / shrink.
pub mod c19;

use crate::PropDef;

pub fn all() -> Vec<PropDef> {
    vec![
        PropDef {
            id: c19::ID,
            n_units: c19::n_units,
            run_unit: c19::run_unit,
            replay: |c, _ctx| c19::replay(c),
            shrink: c19::shrink,
            case_at: |ctx, u, s| Some(serde_json::to_value(c19::case_for(ctx.seed, u, s)).unwrap()),
        },
    ]
}
