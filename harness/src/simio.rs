//! Scripted byte sink and byte source: the simulator's "network and disk".
//!
//! A script is an explicit, serialisable list of steps; nothing here draws from the PRNG, so
//! replaying a Case replays the exact same sequence of accepts, short transfers and faults.

use crate::tracker;
use serde::{Deserialize, Serialize};
use std::io;

#[derive(Clone, Copy, Debug, PartialEq, Eq, Serialize, Deserialize)]
pub enum Kind {
    Other,
    WouldBlock,
    BrokenPipe,
    StorageFull,
    TimedOut,
    UnexpectedEof,
}
impl Kind {
    pub fn to_io(self) -> io::ErrorKind {
        match self {
            Kind::Other => io::ErrorKind::Other,
            Kind::WouldBlock => io::ErrorKind::WouldBlock,
            Kind::BrokenPipe => io::ErrorKind::BrokenPipe,
            Kind::StorageFull => io::ErrorKind::StorageFull,
            Kind::TimedOut => io::ErrorKind::TimedOut,
            Kind::UnexpectedEof => io::ErrorKind::UnexpectedEof,
        }
    }
    pub const ALL: [Kind; 6] = [Kind::Other, Kind::WouldBlock, Kind::BrokenPipe, Kind::StorageFull, Kind::TimedOut, Kind::UnexpectedEof];
}

/// One step of a sink/source script. Each `write`/`read` call consumes the current step unless
/// noted.
#[derive(Clone, Copy, Debug, PartialEq, Eq, Serialize, Deserialize)]
pub enum Step {
    /// Transfer everything asked for until the total transferred reaches this byte position
    /// (splitting a call at the position if necessary); stays current until then.
    Until(usize),
    /// Transfer at most this many bytes in this call (a short write / short read).
    Chunk(usize),
    /// ErrorKind::Interrupted (retried by std's write_all / read_exact).
    Intr,
    /// Sink: Ok(0) (=> WriteZero). Source: Ok(0) although bytes remain (premature EOF).
    Zero,
    /// A hard error of this kind. One-shot: the next call proceeds with the next step.
    Fail(Kind),
}

#[derive(Clone, Debug, Default, PartialEq, Eq, Serialize, Deserialize)]
pub struct Script {
    pub steps: Vec<Step>,
    /// after the steps are exhausted: cyclic list of maximum transfer sizes (empty = everything)
    #[serde(default, skip_serializing_if = "Vec::is_empty")]
    pub tail: Vec<usize>,
    /// outcome of the i-th flush call: true = fail (missing = ok)
    #[serde(default, skip_serializing_if = "Vec::is_empty")]
    pub flush_fail: Vec<bool>,
}
impl Script {
    pub fn fail_at(k: usize, kind: Kind) -> Script {
        Script { steps: vec![Step::Until(k), Step::Fail(kind)], tail: vec![], flush_fail: vec![] }
    }
    pub fn zero_at(k: usize) -> Script {
        Script { steps: vec![Step::Until(k), Step::Zero], tail: vec![], flush_fail: vec![] }
    }
    pub fn flush_failure() -> Script {
        Script { steps: vec![], tail: vec![], flush_fail: vec![true] }
    }
    pub fn chunks(tail: Vec<usize>) -> Script {
        Script { steps: vec![], tail, flush_fail: vec![] }
    }
    pub fn has_terminal(&self) -> bool {
        self.steps.iter().any(|s| matches!(s, Step::Zero | Step::Fail(_))) || self.flush_fail.iter().any(|&b| b)
    }
}

#[derive(Clone, Debug, PartialEq, Eq, Serialize)]
pub struct Fired {
    /// "intr" | "zero" | "fail:<Kind>" | "flush-fail" | "short"
    pub what: String,
    /// bytes transferred before it fired
    pub at: usize,
}

#[derive(Default, Debug, Clone)]
pub struct IoStats {
    pub calls: usize,
    pub flush_calls: usize,
    pub intr: usize,
    pub shorts: usize,
    pub terminal: usize,
    pub calls_after_terminal: usize,
    pub fired: Vec<Fired>,
}

struct Cursor {
    script: Script,
    ip: usize,
    tail_ip: usize,
}
enum Decision {
    Transfer(usize),
    Intr,
    Zero,
    Fail(Kind),
}
impl Cursor {
    fn new(script: Script) -> Cursor {
        Cursor { script, ip: 0, tail_ip: 0 }
    }
    /// Decide what the next call, asking for `want` bytes after `done` bytes were transferred, does.
    fn decide(&mut self, done: usize, want: usize) -> Decision {
        loop {
            if self.ip >= self.script.steps.len() {
                if self.script.tail.is_empty() {
                    return Decision::Transfer(want);
                }
                let n = self.script.tail[self.tail_ip % self.script.tail.len()].max(1);
                self.tail_ip += 1;
                return Decision::Transfer(n.min(want));
            }
            match self.script.steps[self.ip] {
                Step::Until(k) => {
                    if done >= k {
                        self.ip += 1;
                        continue;
                    }
                    return Decision::Transfer(want.min(k - done));
                }
                Step::Chunk(n) => {
                    self.ip += 1;
                    return Decision::Transfer(n.max(1).min(want));
                }
                Step::Intr => {
                    self.ip += 1;
                    return Decision::Intr;
                }
                Step::Zero => {
                    self.ip += 1;
                    return Decision::Zero;
                }
                Step::Fail(k) => {
                    self.ip += 1;
                    return Decision::Fail(k);
                }
            }
        }
    }
    fn exhausted(&self) -> bool {
        self.ip >= self.script.steps.len()
    }
}

// ---------------------------------------------------------------------------------------

/// Scripted sink. `accepted` is pre-sized so that the sink never reallocates.
pub struct SimWriter {
    cur: Cursor,
    pub accepted: Vec<u8>,
    pub stats: IoStats,
    flush_ip: usize,
    /// total number of sink calls allowed before the run is declared non-terminating
    pub budget: usize,
    pub over_budget: bool,
}
impl SimWriter {
    pub fn new(script: Script, expected_len: usize, budget: usize) -> SimWriter {
        SimWriter { cur: Cursor::new(script), accepted: Vec::with_capacity(expected_len * 2 + 4096), stats: IoStats::default(), flush_ip: 0, budget, over_budget: false }
    }
    fn tick(&mut self) -> io::Result<()> {
        if self.stats.calls + self.stats.flush_calls > self.budget {
            self.over_budget = true;
            // stop the library from spinning: a persistent hard error
            return Err(io::Error::new(io::ErrorKind::Other, "sim: step budget exceeded"));
        }
        Ok(())
    }
    fn do_write(&mut self, buf: &[u8]) -> io::Result<usize> {
        let _g = tracker::sim_enter();
        self.stats.calls += 1;
        self.tick()?;
        if self.stats.terminal > 0 {
            self.stats.calls_after_terminal += 1;
        }
        if buf.is_empty() {
            return Ok(0);
        }
        let done = self.accepted.len();
        match self.cur.decide(done, buf.len()) {
            Decision::Transfer(n) => {
                if n < buf.len() {
                    self.stats.shorts += 1;
                }
                if self.accepted.len() + n > self.accepted.capacity() {
                    // never reallocate inside a library call: this would be a harness sizing bug
                    self.over_budget = true;
                    return Err(io::Error::new(io::ErrorKind::Other, "sim: sink overflow"));
                }
                self.accepted.extend_from_slice(&buf[..n]);
                Ok(n)
            }
            Decision::Intr => {
                self.stats.intr += 1;
                self.stats.fired.push(Fired { what: "intr".into(), at: done });
                Err(io::Error::new(io::ErrorKind::Interrupted, "sim: EINTR"))
            }
            Decision::Zero => {
                self.stats.terminal += 1;
                self.stats.fired.push(Fired { what: "zero".into(), at: done });
                Ok(0)
            }
            Decision::Fail(k) => {
                self.stats.terminal += 1;
                self.stats.fired.push(Fired { what: format!("fail:{:?}", k), at: done });
                Err(io::Error::new(k.to_io(), "sim: injected write failure"))
            }
        }
    }
    fn do_flush(&mut self) -> io::Result<()> {
        let _g = tracker::sim_enter();
        self.stats.flush_calls += 1;
        self.tick()?;
        let fail = self.cur.script.flush_fail.get(self.flush_ip).copied().unwrap_or(false);
        self.flush_ip += 1;
        if fail {
            self.stats.terminal += 1;
            self.stats.fired.push(Fired { what: "flush-fail".into(), at: self.accepted.len() });
            return Err(io::Error::new(io::ErrorKind::Other, "sim: injected flush failure"));
        }
        Ok(())
    }
    pub fn script_exhausted(&self) -> bool {
        self.cur.exhausted()
    }
}
impl io::Write for SimWriter {
    fn write(&mut self, buf: &[u8]) -> io::Result<usize> {
        self.do_write(buf)
    }
    fn flush(&mut self) -> io::Result<()> {
        self.do_flush()
    }
}

/// The same sink exposed through the library's own `WriteNoStd` (no std retry loop in between).
/// `write_all` accepts a prefix and returns `WriteError` when a terminal step fires; retryable
/// steps are retried here.
pub struct NoStdSink(pub SimWriter);
impl epserde::ser::WriteNoStd for NoStdSink {
    fn write_all(&mut self, mut buf: &[u8]) -> epserde::ser::Result<()> {
        while !buf.is_empty() {
            match self.0.do_write(buf) {
                Ok(0) => return Err(epserde::ser::Error::WriteError),
                Ok(n) => buf = &buf[n..],
                Err(e) if e.kind() == io::ErrorKind::Interrupted => {}
                Err(_) => return Err(epserde::ser::Error::WriteError),
            }
        }
        Ok(())
    }
    fn flush(&mut self) -> epserde::ser::Result<()> {
        self.0.do_flush().map_err(|_| epserde::ser::Error::WriteError)
    }
}

// ---------------------------------------------------------------------------------------

/// Scripted source over a byte string.
pub struct SimReader<'a> {
    cur: Cursor,
    data: &'a [u8],
    pub served: usize,
    pub stats: IoStats,
    pub budget: usize,
    pub over_budget: bool,
}
impl<'a> SimReader<'a> {
    pub fn new(script: Script, data: &'a [u8], budget: usize) -> SimReader<'a> {
        SimReader { cur: Cursor::new(script), data, served: 0, stats: IoStats::default(), budget, over_budget: false }
    }
}
impl io::Read for SimReader<'_> {
    fn read(&mut self, buf: &mut [u8]) -> io::Result<usize> {
        let _g = tracker::sim_enter();
        self.stats.calls += 1;
        if self.stats.calls > self.budget {
            self.over_budget = true;
            return Err(io::Error::new(io::ErrorKind::Other, "sim: step budget exceeded"));
        }
        if self.stats.terminal > 0 {
            self.stats.calls_after_terminal += 1;
        }
        if buf.is_empty() {
            return Ok(0);
        }
        let remaining = self.data.len() - self.served;
        if remaining == 0 {
            return Ok(0); // genuine end of data
        }
        let want = buf.len().min(remaining);
        match self.cur.decide(self.served, want) {
            Decision::Transfer(n) => {
                if n < buf.len() {
                    self.stats.shorts += 1;
                }
                buf[..n].copy_from_slice(&self.data[self.served..self.served + n]);
                self.served += n;
                Ok(n)
            }
            Decision::Intr => {
                self.stats.intr += 1;
                self.stats.fired.push(Fired { what: "intr".into(), at: self.served });
                Err(io::Error::new(io::ErrorKind::Interrupted, "sim: EINTR"))
            }
            Decision::Zero => {
                self.stats.terminal += 1;
                self.stats.fired.push(Fired { what: "eof".into(), at: self.served });
                Ok(0)
            }
            Decision::Fail(k) => {
                self.stats.terminal += 1;
                self.stats.fired.push(Fired { what: format!("fail:{:?}", k), at: self.served });
                Err(io::Error::new(k.to_io(), "sim: injected read failure"))
            }
        }
    }
}

/// The same source exposed directly through the library's `ReadNoStd` (no std `read_exact` loop
/// in between): retryable steps are retried here, a terminal step is a `ReadError`.
pub struct NoStdSource<'a>(pub SimReader<'a>);
impl epserde::deser::ReadNoStd for NoStdSource<'_> {
    fn read_exact(&mut self, mut buf: &mut [u8]) -> epserde::deser::Result<()> {
        use std::io::Read;
        while !buf.is_empty() {
            match self.0.read(buf) {
                Ok(0) => return Err(epserde::deser::Error::ReadError),
                Ok(n) => buf = &mut buf[n..],
                Err(e) if e.kind() == io::ErrorKind::Interrupted => {}
                Err(_) => return Err(epserde::deser::Error::ReadError),
            }
        }
        Ok(())
    }
}
