//! C08 — file loaders agree with ε-copy of the file bytes and own a sound region.
//! Seeded schedules over the simulated world (see world.rs); only C08-class oracles are reported.

use super::world::{self, Case, WorldCfg};
use crate::ctx::{Ctx, Tier, Violation};
use crate::rng::{mix, Fnv, Rng};

pub const ID: &str = "C08";
const PER_UNIT: u64 = 16;

pub fn n_units(tier: Tier) -> u64 {
    match tier {
        Tier::Quick => 4096,
        Tier::Thorough => 65536,
    }
}

pub fn case_for(seed: u64, tier: Tier, unit: u64, sub: u64) -> Case {
    let mut r = Rng::new(mix(seed, ID, unit, sub));
    Case { ops: world::gen_ops(&mut r, false, tier) }
}

pub fn run_unit(ctx: &mut Ctx, unit: u64) {
    run_unit_for(ctx, unit, ID, |s, t, u, k| case_for(s, t, u, k))
}

pub fn run_unit_for(ctx: &mut Ctx, unit: u64, prop: &'static str, mk: impl Fn(u64, Tier, u64, u64) -> Case) {
    let scratch = ctx.scratch.clone();
    for sub in 0..PER_UNIT {
        ctx.begin(unit, sub);
        let case = mk(ctx.seed, ctx.tier, unit, sub);
        let cfg = WorldCfg { seed: ctx.seed, tier: ctx.tier, scratch: &scratch, prop };
        match world::execute(&cfg, &case) {
            Ok(info) => {
                ctx.logical_steps += info.steps;
                for c in &info.counts {
                    ctx.count(c);
                }
                ctx.aux.insert(info.schedule);
                let nt = if info.nontrivial { Some(Fnv::new().str(&format!("{:?}", case.ops)).get()) } else { None };
                ctx.done(unit, sub, info.digest, nt);
                if info.nontrivial && sub == 3 {
                    ctx.sample(|| serde_json::to_value(&case).unwrap());
                }
            }
            Err(v) => {
                ctx.done(unit, sub, Fnv::new().str(&v.class).get(), None);
                ctx.violation(v, unit, sub, || serde_json::to_value(&case).unwrap());
            }
        }
    }
}

pub fn case_at(ctx: &mut Ctx, unit: u64, sub: u64) -> Option<serde_json::Value> {
    Some(serde_json::to_value(&case_for(ctx.seed, ctx.tier, unit, sub)).unwrap())
}

pub fn replay_for(case: &serde_json::Value, ctx: &mut Ctx, prop: &'static str) -> Result<Option<Violation>, String> {
    let c: Case = serde_json::from_value(case.clone()).map_err(|e| e.to_string())?;
    let scratch = ctx.scratch.clone();
    let cfg = WorldCfg { seed: ctx.seed, tier: ctx.tier, scratch: &scratch, prop };
    Ok(world::execute(&cfg, &c).err())
}
pub fn replay(case: &serde_json::Value, ctx: &mut Ctx) -> Result<Option<Violation>, String> {
    replay_for(case, ctx, ID)
}

pub fn shrink(case: &serde_json::Value) -> Vec<serde_json::Value> {
    let Ok(c) = serde_json::from_value::<Case>(case.clone()) else { return vec![] };
    world::shrink_ops(&c).into_iter().map(|d| serde_json::to_value(&d).unwrap()).collect()
}
