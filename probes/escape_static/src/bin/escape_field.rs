//! Observation (known finding of C09), field-copy access path: a borrowed field of a derived
//! structure is copied out of the case (through auto-deref) and kept past the drop of the case.
use epserde::prelude::*;

#[derive(Epserde, Debug, Clone)]
struct Doc<A> {
    a: A,
    n: u32,
}

fn main() {
    let Ok(case) = <Doc<Vec<u64>>>::load_mem("/nonexistent") else { return };
    let r: &'static [u64] = case.a;
    drop(case);
    println!("{:?}", r.first());
}
