//! C11 — a strict prefix of a valid stream (crash / full disk while storing) is never a value.
//!
//! Crash point k = number of bytes that became durable. For every k∈[0,len):
//!  Full      deserialize_full over a cursor on B[..k]                        -> exactly ReadError
//!  SimEof    deserialize_full over a scripted source that ends at k          -> exactly ReadError
//!  LoadFull  load_full of a file holding B[..k]                              -> exactly ReadError
//!  Eps       deserialize_eps of B[..k] placed flush against a guard page     -> Err or caught panic
//!  Mmap      T::mmap of the truncated file                                   -> Err or caught panic
//! never Ok; the worker process survives (an over-read beyond the slack is a SIGSEGV).

use super::common::*;
use crate::ctx::{catch, panic_class, Ctx, Tier, Violation};
use crate::docs::{self, Doc, DocFn, Loader, ALL_DOCS};
use crate::rng::{mix, Fnv, Rng};
use crate::simio::{Script, SimReader};
use crate::{sys, tracker};
use epserde::deser::{self, Deserialize};

pub const ID: &str = "C11";

#[derive(Clone, Copy, Debug, PartialEq, Eq, serde::Serialize, serde::Deserialize)]
pub enum Entry {
    Full,
    SimEof,
    LoadFull,
    Eps,
    Mmap(u32),
}
#[derive(Clone, Debug, serde::Serialize, serde::Deserialize)]
pub struct Case {
    pub doc: String,
    pub vi: u64,
    pub entry: Entry,
    pub k: usize,
}

fn exec<D: Doc>(p: &PrepDoc<D>, entry: Entry, k: usize, scratch: &std::path::Path) -> Result<(u64, &'static str), Violation> {
    crate::ctx::scrub_stack();
    let len = p.b.len();
    if k >= len {
        return Ok((0, "not-a-strict-prefix"));
    }
    let prefix = &p.b[..k];
    let what = format!("{:?} of the {}-byte prefix of a {}-byte {} stream", entry, k, len, D::NAME);
    let strict = |r: Result<Result<(), String>, String>| -> Result<&'static str, Violation> {
        match r {
            Err(pmsg) => Err(Violation::new("C11/panic", format!("{}: panicked ({})", what, pmsg))),
            Ok(Ok(())) => Err(Violation::new("C11/ok-on-prefix", format!("{}: returned a value", what))),
            Ok(Err(name)) if name == "ReadError" => Ok("read-error"),
            Ok(Err(name)) => Err(Violation::new("C11/wrong-error", format!("{}: returned {} instead of a read error", what, name))),
        }
    };
    let outcome = match entry {
        Entry::Full => strict(catch(|| D::deserialize_full(&mut std::io::Cursor::new(prefix)).map(|_| ()).map_err(|e| deser_err_name(&e))))?,
        Entry::SimEof => {
            let mut rdr = SimReader::new(Script::default(), prefix, 4 * len + 64);
            strict(catch(|| D::deserialize_full(&mut rdr).map(|_| ()).map_err(|e| deser_err_name(&e))))?
        }
        Entry::LoadFull => {
            let path = scratch.join("c11.bin");
            std::fs::write(&path, prefix).map_err(|e| Violation::new("C11/harness", e.to_string()))?;
            let r = catch(|| {
                D::load(Loader::Full, &path, 0).map(|_| ()).map_err(|e| match e.downcast_ref::<deser::Error>() {
                    Some(de) => deser_err_name(de),
                    None => format!("non-deser error: {}", e),
                })
            });
            let _ = std::fs::remove_file(&path);
            strict(r)?
        }
        Entry::Eps => {
            let unit = max_unit(&p.schema);
            let r = with_arena(|a| {
                let (s, _slack) = a.place_flush(prefix, unit);
                catch(|| D::deserialize_eps(s).map(|_| ()).map_err(|e| deser_err_name(&e)))
            });
            match r {
                Ok(Ok(())) => return Err(Violation::new("C11/ok-on-prefix", format!("{}: returned a value", what))),
                Ok(Err(_)) => "error",
                Err(_) => "bounds-panic",
            }
        }
        Entry::Mmap(flags) => {
            if !Loader::AVAILABLE.contains(&Loader::Mmap) {
                return Ok((0, "unavailable"));
            }
            let path = scratch.join("c11m.bin");
            std::fs::write(&path, prefix).map_err(|e| Violation::new("C11/harness", e.to_string()))?;
            let r = {
                let _l = sys::loader_enter(0);
                catch(|| D::load(Loader::Mmap, &path, flags).map(|_| ()).map_err(|e| e.to_string()))
            };
            // a failed load leaks its mapping on the pinned tree; that is C09's business — clean up here
            sys::reap_leaked();
            let _ = std::fs::remove_file(&path);
            match r {
                Ok(Ok(())) => return Err(Violation::new("C11/ok-on-prefix", format!("{}: returned a structure", what))),
                Ok(Err(_)) => "error",
                Err(_) => "bounds-panic",
            }
        }
    };
    Ok((Fnv::new().str(outcome).u64(k as u64).get(), outcome))
}

/// (entry, k) pairs of one (document, value) unit.
fn cases(seed: u64, doc: &str, vi: u64, p_len: usize, boundaries: &[usize], tier: Tier) -> Vec<(Entry, usize)> {
    let mut r = Rng::new(mix(seed, "c11cases", fx(doc), vi));
    let mut out = Vec::new();
    let all = positions(p_len, false, &mut r);
    for &k in &all {
        out.push((Entry::Full, k));
        out.push((Entry::Eps, k));
        out.push((Entry::SimEof, k));
    }
    // file-backed entry points: every k (thorough) or every write-event boundary ±1 plus seeded cuts (quick)
    let ks: Vec<usize> = match tier {
        _ if p_len > 24 * 1024 => all.iter().copied().step_by(4).collect(),
        Tier::Thorough => all.clone(),
        Tier::Quick => {
            let mut ks: Vec<usize> = Vec::new();
            for &b in boundaries {
                for d in [-1i64, 0, 1] {
                    let k = b as i64 + d;
                    if k >= 0 && (k as usize) < p_len {
                        ks.push(k as usize);
                    }
                }
            }
            for _ in 0..16 {
                ks.push(r.below(p_len as u64) as usize);
            }
            ks.sort_unstable();
            ks.dedup();
            ks
        }
    };
    for k in ks {
        out.push((Entry::LoadFull, k));
        out.push((Entry::Mmap(r.below(8) as u32), k));
    }
    out
}

fn boundaries_of<D: Doc>(p: &PrepDoc<D>) -> Vec<usize> {
    let mut b: Vec<usize> = p.schema.0.iter().flat_map(|r| [r.offset, r.offset + r.size]).collect();
    b.sort_unstable();
    b.dedup();
    b
}

pub fn n_units(tier: Tier) -> u64 {
    n_docs() * values_per_doc(tier, 24, 300)
}

struct RunUnit<'a> {
    ctx: &'a mut Ctx,
    unit: u64,
    vi: u64,
}
impl DocFn for RunUnit<'_> {
    type Out = ();
    fn call<D: Doc>(self) {
        let RunUnit { ctx, unit, vi } = self;
        ctx.begin(unit, u64::MAX);
        let Some(p) = prep_doc_need::<D>(ctx.seed, ID, vi, ctx.tier, Need::StreamOnly) else {
            ctx.count("control_failures");
            return;
        };
        ctx.docs_seen.insert(D::NAME.to_string());
        let rows = row_classes(&p.schema);
        let canon_digest = Fnv::new().bytes(&p.b).get();
        let cs = cases(ctx.seed, D::NAME, vi, p.b.len(), &boundaries_of(&p), ctx.tier);
        let scratch = ctx.scratch.clone();
        for (sub, (entry, k)) in cs.iter().enumerate() {
            let sub = sub as u64;
            ctx.begin(unit, sub);
            match exec(&p, *entry, *k, &scratch) {
                Ok((digest, outcome)) => {
                    ctx.logical_steps += 1;
                    if outcome == "unavailable" {
                        ctx.count("skipped.mmap_not_in_build");
                        continue;
                    }
                    ctx.count(&format!("fault.cut@{}", match entry { Entry::Full => "deserialize_full", Entry::SimEof => "source_eof", Entry::LoadFull => "load_full", Entry::Eps => "deserialize_eps", Entry::Mmap(_) => "mmap" }));
                    ctx.count(&format!("outcome.{}", outcome));
                    if let Some(pr) = position_probe(&rows, *k) {
                        ctx.count(&format!("probe.cut_in_{}", pr));
                    }
                    if *k == 0 {
                        ctx.count("probe.empty_file");
                    }
                    if *k + 1 == p.b.len() {
                        ctx.count("probe.last_byte_missing");
                    }
                    let nt = Fnv::new().str(D::NAME).u64(canon_digest).str(&format!("{:?}", entry)).u64(*k as u64).get();
                    ctx.done(unit, sub, digest, Some(nt));
                    if sub % 211 == 7 {
                        ctx.sample(|| serde_json::json!({"case": Case { doc: D::NAME.into(), vi, entry: *entry, k: *k }, "stream_len": p.b.len(), "outcome": outcome}));
                    }
                }
                Err(v) => {
                    ctx.done(unit, sub, Fnv::new().str(&v.class).get(), None);
                    ctx.violation(v, unit, sub, || serde_json::to_value(&Case { doc: D::NAME.into(), vi, entry: *entry, k: *k }).unwrap());
                }
            }
        }
    }
}

pub fn run_unit(ctx: &mut Ctx, unit: u64) {
    let (doc, vi) = unit_doc(unit);
    docs::dispatch(doc, RunUnit { ctx, unit, vi });
}

struct CaseAt {
    seed: u64,
    tier: Tier,
    vi: u64,
    sub: u64,
}
impl DocFn for CaseAt {
    type Out = Option<Case>;
    fn call<D: Doc>(self) -> Option<Case> {
        let p = prep_doc_need::<D>(self.seed, ID, self.vi, self.tier, Need::StreamOnly)?;
        cases(self.seed, D::NAME, self.vi, p.b.len(), &boundaries_of(&p), self.tier).get(self.sub as usize).map(|(entry, k)| Case { doc: D::NAME.into(), vi: self.vi, entry: *entry, k: *k })
    }
}
pub fn case_at(ctx: &mut Ctx, unit: u64, sub: u64) -> Option<serde_json::Value> {
    let (doc, vi) = unit_doc(unit);
    docs::dispatch(doc, CaseAt { seed: ctx.seed, tier: ctx.tier, vi, sub }).flatten().map(|c| serde_json::to_value(&c).unwrap())
}

struct Replay<'a> {
    case: &'a Case,
    seed: u64,
    tier: Tier,
    scratch: std::path::PathBuf,
}
impl DocFn for Replay<'_> {
    type Out = Result<Option<Violation>, String>;
    fn call<D: Doc>(self) -> Self::Out {
        let Some(p) = prep_doc_need::<D>(self.seed, ID, self.case.vi, self.tier, Need::StreamOnly) else { return Err("the fault-free control run of this value fails".into()) };
        Ok(exec(&p, self.case.entry, self.case.k, &self.scratch).err())
    }
}
pub fn replay(case: &serde_json::Value, ctx: &mut Ctx) -> Result<Option<Violation>, String> {
    let c: Case = serde_json::from_value(case.clone()).map_err(|e| e.to_string())?;
    docs::dispatch(&c.doc, Replay { case: &c, seed: ctx.seed, tier: ctx.tier, scratch: ctx.scratch.clone() }).unwrap_or(Err("unknown document".into()))
}

pub fn shrink(case: &serde_json::Value) -> Vec<serde_json::Value> {
    let Ok(c) = serde_json::from_value::<Case>(case.clone()) else { return vec![] };
    let mut out: Vec<Case> = Vec::new();
    for vi in 0..c.vi.min(3) {
        // a smaller value has a shorter stream: keep k inside it by clamping in exec (k>=len is a no-op)
        out.push(Case { vi, ..c.clone() });
    }
    if c.k > 0 {
        out.push(Case { k: c.k / 2, ..c.clone() });
        out.push(Case { k: c.k - 1, ..c.clone() });
    }
    if let Entry::Mmap(f) = c.entry {
        if f != 0 {
            out.push(Case { entry: Entry::Mmap(0), ..c.clone() });
        }
    }
    out.into_iter().map(|d| serde_json::to_value(&d).unwrap()).collect()
}
