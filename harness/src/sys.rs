//! Interposed `mmap` / `munmap` / `mprotect` / `madvise`: the simulator owns the mapping table.
//!
//! `mmap-rs` (and std) call these libc symbols; defining them in the harness binary makes the
//! static linker bind those calls here (glibc-internal calls such as malloc's do not come
//! through). Calls are forwarded with `syscall(2)`. Only calls made while the calling thread is
//! inside a loader (`loader_enter`) are recorded as loader mappings; `munmap` of a range that
//! overlaps a recorded mapping without matching it exactly, or that matches a mapping already
//! released, is recorded as a violation and **not forwarded**.

use std::cell::Cell;
use std::sync::atomic::{AtomicBool, AtomicU64, Ordering};

const MCAP: usize = 4096;

#[derive(Clone, Copy, Debug)]
pub struct Mapping {
    pub addr: usize,
    pub len: usize,
    pub fd: i32,
    pub prot: i32,
    pub live: bool,
    /// released by an exact or covering munmap and not yet known to be re-used by anyone
    pub dead_exact: bool,
    pub serial: u64,
    pub op: u16,
    /// advice values passed to madvise on this mapping, in call order (up to 4)
    pub advice: [i32; 4],
    pub nadvice: u8,
}
const NOMAP: Mapping = Mapping { addr: 0, len: 0, fd: -1, prot: 0, live: false, dead_exact: false, serial: 0, op: 0, advice: [0; 4], nadvice: 0 };

static mut MAPS: [Mapping; MCAP] = [NOMAP; MCAP];
static mut NMAPS: usize = 0;
static LOCK: AtomicBool = AtomicBool::new(false);
static SERIAL: AtomicU64 = AtomicU64::new(1);
/// injected system-call faults that actually fired (process-wide: the controller reads it after the actor ran)
static FAULTS_FIRED: AtomicU64 = AtomicU64::new(0);

#[derive(Clone, Copy, Debug, PartialEq, Eq)]
pub enum MViol {
    /// munmap of a range that partially overlaps a live loader mapping
    PartialUnmap,
    /// munmap of a loader mapping that was already released
    DoubleUnmap,
}
static mut MVIOLS: [Option<(MViol, usize)>; 16] = [None; 16];
static mut NMVIOL: usize = 0;

thread_local! {
    static IN_LOADER: Cell<u32> = const { Cell::new(0) };
    static CUR_OP: Cell<u16> = const { Cell::new(0) };
    /// injected fault: fail the n-th (1-based) mmap call made inside a loader with ENOMEM
    static FAIL_MMAP_AT: Cell<u32> = const { Cell::new(0) };
    static FAIL_MPROTECT: Cell<bool> = const { Cell::new(false) };
    static MMAP_CALLS: Cell<u32> = const { Cell::new(0) };
    /// injected fault: the n-th (1-based) read call made inside a loader fails (EIO) or reports end of file
    static FAIL_READ_AT: Cell<u32> = const { Cell::new(0) };
    static FAIL_READ_EOF: Cell<bool> = const { Cell::new(false) };
    static READ_CALLS: Cell<u32> = const { Cell::new(0) };
}

fn lock() {
    while LOCK.compare_exchange_weak(false, true, Ordering::Acquire, Ordering::Relaxed).is_err() {
        std::hint::spin_loop();
    }
}
fn unlock() {
    LOCK.store(false, Ordering::Release);
}

unsafe fn set_errno(e: i32) {
    *libc::__errno_location() = e;
}

#[no_mangle]
pub unsafe extern "C" fn mmap(addr: *mut libc::c_void, len: libc::size_t, prot: libc::c_int, flags: libc::c_int, fd: libc::c_int, off: libc::off_t) -> *mut libc::c_void {
    let inl = IN_LOADER.with(|c| c.get()) > 0;
    if inl {
        let n = MMAP_CALLS.with(|c| {
            c.set(c.get() + 1);
            c.get()
        });
        if FAIL_MMAP_AT.with(|c| c.get()) == n {
            FAULTS_FIRED.fetch_add(1, Ordering::SeqCst);
            set_errno(libc::ENOMEM);
            return libc::MAP_FAILED;
        }
    }
    let r = libc::syscall(libc::SYS_mmap, addr, len, prot, flags, fd, off);
    if r == -1 {
        return libc::MAP_FAILED;
    }
    {
        lock();
        let maps = &mut *std::ptr::addr_of_mut!(MAPS);
        let (rs, re) = (r as usize, r as usize + len);
        for i in 0..NMAPS {
            if !maps[i].live && maps[i].dead_exact && maps[i].addr < re && rs < maps[i].addr + maps[i].len.max(1) {
                maps[i].dead_exact = false;
            }
        }
        unlock();
    }
    if inl {
        lock();
        // reuse a dead slot with the same address if any, else append
        let maps = &mut *std::ptr::addr_of_mut!(MAPS);
        let mut slot = None;
        for i in 0..NMAPS {
            if !maps[i].live {
                slot = Some(i);
                break;
            }
        }
        let i = match slot {
            Some(i) => i,
            None => {
                if NMAPS >= MCAP {
                    crate::tracker::fatal(b"HARNESS-ERROR mapping table full\n");
                }
                NMAPS += 1;
                NMAPS - 1
            }
        };
        maps[i] = Mapping { addr: r as usize, len, fd, prot, live: true, dead_exact: false, serial: SERIAL.fetch_add(1, Ordering::Relaxed), op: CUR_OP.with(|c| c.get()), advice: [0; 4], nadvice: 0 };
        unlock();
    }
    r as *mut libc::c_void
}

/// `read(2)` as called by std's `File`: inside a loader the simulator can make the n-th call fail
/// with EIO (disk error) or return 0 (the file shrank between `stat` and `read`).
#[no_mangle]
pub unsafe extern "C" fn read(fd: libc::c_int, buf: *mut libc::c_void, count: libc::size_t) -> libc::ssize_t {
    if IN_LOADER.with(|c| c.get()) > 0 {
        let n = READ_CALLS.with(|c| {
            c.set(c.get() + 1);
            c.get()
        });
        if FAIL_READ_AT.with(|c| c.get()) == n {
            FAULTS_FIRED.fetch_add(1, Ordering::SeqCst);
            if FAIL_READ_EOF.with(|c| c.get()) {
                return 0;
            }
            set_errno(libc::EIO);
            return -1;
        }
    }
    libc::syscall(libc::SYS_read, fd, buf, count) as libc::ssize_t
}

#[no_mangle]
pub unsafe extern "C" fn munmap(addr: *mut libc::c_void, len: libc::size_t) -> libc::c_int {
    let a = addr as usize;
    let end = a + len;
    lock();
    let maps = &mut *std::ptr::addr_of_mut!(MAPS);
    let n0 = NMAPS;
    // releasing again exactly the range of a loader mapping that was already released (and that nobody
    // has mapped over since, as far as calls through these symbols show): a double release. Recorded and
    // NOT forwarded.
    let overlaps_live = (0..n0).any(|i| maps[i].live && a < maps[i].addr + maps[i].len.max(1) && maps[i].addr < end.max(a + 1));
    if !overlaps_live {
        if let Some(i) = (0..n0).find(|&i| !maps[i].live && maps[i].dead_exact && maps[i].addr == a && maps[i].len == len) {
            if NMVIOL < 16 {
                (*std::ptr::addr_of_mut!(MVIOLS))[NMVIOL] = Some((MViol::DoubleUnmap, maps[i].len));
            }
            NMVIOL += 1;
            unlock();
            return 0;
        }
    }
    for i in 0..n0 {
        let m = maps[i];
        if !m.live {
            continue;
        }
        let (ms, me) = (m.addr, m.addr + m.len);
        if a >= me || ms >= end {
            continue; // disjoint
        }
        if a <= ms && end >= me {
            maps[i].live = false; // released entirely
            maps[i].dead_exact = a == ms && end == me;
        } else if a <= ms {
            // head trimmed
            maps[i].addr = end;
            maps[i].len = me - end;
        } else if end >= me {
            // tail trimmed
            maps[i].len = a - ms;
        } else {
            // a hole in the middle: two mappings remain
            maps[i].len = a - ms;
            if NMAPS < MCAP {
                maps[NMAPS] = Mapping { addr: end, len: me - end, ..m };
                NMAPS += 1;
            }
        }
    }
    unlock();
    libc::syscall(libc::SYS_munmap, addr, len) as libc::c_int
}

#[no_mangle]
pub unsafe extern "C" fn mprotect(addr: *mut libc::c_void, len: libc::size_t, prot: libc::c_int) -> libc::c_int {
    if IN_LOADER.with(|c| c.get()) > 0 && FAIL_MPROTECT.with(|c| c.get()) {
        FAULTS_FIRED.fetch_add(1, Ordering::SeqCst);
        set_errno(libc::EACCES);
        return -1;
    }
    let r = libc::syscall(libc::SYS_mprotect, addr, len, prot) as libc::c_int;
    if r == 0 {
        lock();
        let maps = &mut *std::ptr::addr_of_mut!(MAPS);
        for i in 0..NMAPS {
            if maps[i].live && maps[i].addr == addr as usize {
                maps[i].prot = prot;
            }
        }
        unlock();
    }
    r
}

#[no_mangle]
pub unsafe extern "C" fn madvise(addr: *mut libc::c_void, len: libc::size_t, advice: libc::c_int) -> libc::c_int {
    lock();
    let maps = &mut *std::ptr::addr_of_mut!(MAPS);
    for i in 0..NMAPS {
        if maps[i].live && maps[i].addr == addr as usize {
            let n = maps[i].nadvice as usize;
            if n < 4 {
                maps[i].advice[n] = advice;
                maps[i].nadvice += 1;
            }
        }
    }
    unlock();
    libc::syscall(libc::SYS_madvise, addr, len, advice) as libc::c_int
}

// ---------------------------------------------------------------------------------------
// write(2): inside `Serialize::store` the simulator scripts the kernel's answers to the buffered
// writer (short writes, EINTR, a hard errno), so that the *real* `BufWriter<File>` path is faulted
// at arbitrary positions, not only at the positions /dev/full and RLIMIT_FSIZE allow.

pub const WS_OK: u8 = 0;
/// accept at most (code - WS_SHORT_BASE + 1) bytes
pub const WS_SHORT_BASE: u8 = 16;
pub const WS_EINTR: u8 = 1;
pub const WS_ENOSPC: u8 = 2;
pub const WS_EIO: u8 = 3;
pub const WS_ZERO: u8 = 4;
const WSCRIPT_LEN: usize = 24;

thread_local! {
    static IN_STORE: Cell<u32> = const { Cell::new(0) };
    static WSCRIPT: Cell<[u8; WSCRIPT_LEN]> = const { Cell::new([0; WSCRIPT_LEN]) };
    static WRITE_CALLS: Cell<usize> = const { Cell::new(0) };
    static WRITE_FAULTS: Cell<u32> = const { Cell::new(0) };
    static WRITE_TERMINAL: Cell<u32> = const { Cell::new(0) };
    static WRITE_ACCEPTED: Cell<usize> = const { Cell::new(0) };
}

#[no_mangle]
pub unsafe extern "C" fn write(fd: libc::c_int, buf: *const libc::c_void, count: libc::size_t) -> libc::ssize_t {
    let mut count = count;
    if fd > 2 && IN_STORE.with(|c| c.get()) > 0 {
        let n = WRITE_CALLS.with(|c| {
            let v = c.get();
            c.set(v + 1);
            v
        });
        let code = if n < WSCRIPT_LEN { WSCRIPT.with(|c| c.get())[n] } else { WS_OK };
        match code {
            WS_OK => {}
            WS_EINTR => {
                WRITE_FAULTS.with(|c| c.set(c.get() + 1));
                set_errno(libc::EINTR);
                return -1;
            }
            WS_ENOSPC | WS_EIO => {
                WRITE_FAULTS.with(|c| c.set(c.get() + 1));
                WRITE_TERMINAL.with(|c| c.set(c.get() + 1));
                set_errno(if code == WS_ENOSPC { libc::ENOSPC } else { libc::EIO });
                return -1;
            }
            WS_ZERO => {
                if count > 0 {
                    WRITE_FAULTS.with(|c| c.set(c.get() + 1));
                    WRITE_TERMINAL.with(|c| c.set(c.get() + 1));
                    return 0;
                }
            }
            c if c >= WS_SHORT_BASE => {
                let max = (c - WS_SHORT_BASE) as usize + 1;
                if count > max {
                    WRITE_FAULTS.with(|c| c.set(c.get() + 1));
                    count = max;
                }
            }
            _ => {}
        }
    }
    let r = libc::syscall(libc::SYS_write, fd, buf, count) as libc::ssize_t;
    if r > 0 && fd > 2 && IN_STORE.with(|c| c.get()) > 0 {
        WRITE_ACCEPTED.with(|c| c.set(c.get() + r as usize));
    }
    r
}

pub struct StoreCall;
/// The calling thread is inside `store`: its write(2) calls follow `script` (one code per call).
pub fn store_enter(script: &[u8]) -> StoreCall {
    let mut s = [0u8; WSCRIPT_LEN];
    let n = script.len().min(WSCRIPT_LEN);
    s[..n].copy_from_slice(&script[..n]);
    WSCRIPT.with(|c| c.set(s));
    WRITE_CALLS.with(|c| c.set(0));
    WRITE_FAULTS.with(|c| c.set(0));
    WRITE_TERMINAL.with(|c| c.set(0));
    WRITE_ACCEPTED.with(|c| c.set(0));
    IN_STORE.with(|c| c.set(c.get() + 1));
    StoreCall
}
impl Drop for StoreCall {
    fn drop(&mut self) {
        IN_STORE.with(|c| c.set(c.get() - 1));
    }
}
/// (write calls, faults fired, terminal faults fired, bytes the kernel accepted) of the last store on this thread
pub fn store_stats() -> (usize, u32, u32, usize) {
    (WRITE_CALLS.with(|c| c.get()), WRITE_FAULTS.with(|c| c.get()), WRITE_TERMINAL.with(|c| c.get()), WRITE_ACCEPTED.with(|c| c.get()))
}

pub struct LoaderCall;
pub fn loader_enter(op: u16) -> LoaderCall {
    IN_LOADER.with(|c| c.set(c.get() + 1));
    CUR_OP.with(|c| c.set(op));
    MMAP_CALLS.with(|c| c.set(0));
    READ_CALLS.with(|c| c.set(0));
    LoaderCall
}
impl Drop for LoaderCall {
    fn drop(&mut self) {
        IN_LOADER.with(|c| c.set(c.get() - 1));
        FAIL_MMAP_AT.with(|c| c.set(0));
        FAIL_MPROTECT.with(|c| c.set(false));
        FAIL_READ_AT.with(|c| c.set(0));
    }
}
pub fn inject_read_failure(nth: u32, eof: bool) {
    FAIL_READ_AT.with(|c| c.set(nth));
    FAIL_READ_EOF.with(|c| c.set(eof));
}
pub fn inject_mmap_failure(nth: u32) {
    FAIL_MMAP_AT.with(|c| c.set(nth));
}
pub fn inject_mprotect_failure() {
    FAIL_MPROTECT.with(|c| c.set(true));
}
pub fn take_faults_fired() -> u32 {
    FAULTS_FIRED.swap(0, Ordering::SeqCst) as u32
}

/// Live loader mappings (copy).
pub fn live_mappings() -> Vec<Mapping> {
    let mut tmp = [NOMAP; 64];
    let mut n = 0;
    lock();
    unsafe {
        let maps = &*std::ptr::addr_of!(MAPS);
        for i in 0..NMAPS {
            if maps[i].live && n < 64 {
                tmp[n] = maps[i];
                n += 1;
            }
        }
    }
    unlock();
    tmp[..n].to_vec()
}
pub fn live_count() -> usize {
    lock();
    let n = unsafe {
        let maps = &*std::ptr::addr_of!(MAPS);
        (0..NMAPS).filter(|&i| maps[i].live).count()
    };
    unlock();
    n
}
/// The live loader mapping containing `addr`, if any.
pub fn mapping_at(addr: usize) -> Option<Mapping> {
    lock();
    let r = unsafe {
        let maps = &*std::ptr::addr_of!(MAPS);
        (0..NMAPS).map(|i| maps[i]).find(|m| m.live && m.addr <= addr && addr < m.addr + m.len.max(1))
    };
    unlock();
    r
}
/// Forget (and really unmap) every live loader mapping: used after a leak has been reported so
/// that the next run starts clean.
pub fn reap_leaked() -> usize {
    let ms = live_mappings();
    for m in &ms {
        unsafe {
            munmap(m.addr as *mut _, m.len);
        }
    }
    ms.len()
}
pub fn take_violations() -> Vec<(MViol, usize)> {
    lock();
    let v = unsafe {
        let n = NMVIOL.min(16);
        let mut tmp = [None; 16];
        tmp[..n].copy_from_slice(&(*std::ptr::addr_of!(MVIOLS))[..n]);
        NMVIOL = 0;
        tmp
    };
    unlock();
    v.iter().flatten().copied().collect()
}
