//! C15 — variant tags map back to the variant written; foreign tags are rejected with exactly
//! that tag value.
//!
//! Tag positions come from the writer-side schema (rows named `Tag` / `tag`); the family of sum type
//! at a position is identified by the parent row's type name; the set W of tags a family writes is
//! *learned from the library* by serializing one value per top-level variant of a representative
//! document of that family.

use super::common::*;
use crate::ctx::{catch, Ctx, Tier, Violation};
use crate::docs::{self, Doc, DocFn, ALL_DOCS};
use crate::rng::{mix, Fnv, Rng};
use epserde::deser::Deserialize;
use epserde::ser::Serialize;
use std::collections::BTreeMap;

pub const ID: &str = "C15";

/// (type-name prefix of the parent row, representative document with `variants()`)
const FAMILIES: [(&str, &str); 7] = [
    ("core::option::Option<", "OptU32"),
    ("core::ops::range::Bound<", "BoundU64"),
    ("core::ops::control_flow::ControlFlow<", "CfU32U64"),
    ("epsim::docs::EnumD<", "EnumDVec"),
    ("epsim::docs::E1", "E1D"),
    ("epsim::docs::E2", "E2D"),
    ("epsim::docs::E9", "E9D"),
];

#[derive(Clone, Debug, serde::Serialize, serde::Deserialize)]
pub struct Case {
    pub doc: String,
    /// value index; values `vi < #variants` of a sum-type document are its top-level variants in order
    pub vi: u64,
    /// index of the tag row among the tag rows of the stream
    pub tag_row: usize,
    pub tag: u64,
    pub eps: bool,
}

struct TagRow {
    offset: usize,
    size: usize,
    family: Option<usize>,
    original: u64,
    nested: bool,
    last: bool,
}

struct LearnW;
impl DocFn for LearnW {
    type Out = Option<Vec<u64>>;
    fn call<D: Doc>(self) -> Option<Vec<u64>> {
        let mut r = Rng::new(0xC15);
        let mut w = Vec::new();
        for v in D::variants(&mut r, 2) {
            let mut b = Vec::new();
            let s = catch(|| v.serialize_with_schema(&mut b)).ok()?.ok()?;
            // the first tag row is the top-level one
            let row = s.0.iter().find(|r| r.field == "ROOT.Tag" || r.field == "ROOT.tag")?;
            w.push(read_tag(&b, row.offset, row.size));
        }
        Some(w)
    }
}
fn read_tag(b: &[u8], off: usize, size: usize) -> u64 {
    let mut x = [0u8; 8];
    x[..size].copy_from_slice(&b[off..off + size]);
    u64::from_le_bytes(x)
}
fn write_tag(b: &mut [u8], off: usize, size: usize, t: u64) {
    b[off..off + size].copy_from_slice(&t.to_le_bytes()[..size]);
}

thread_local! {
    static W_CACHE: std::cell::RefCell<Option<Vec<Option<Vec<u64>>>>> = const { std::cell::RefCell::new(None) };
}
/// W per family index, in variant order (None if it could not be learned).
fn families_w() -> Vec<Option<Vec<u64>>> {
    W_CACHE.with(|c| {
        let mut c = c.borrow_mut();
        if c.is_none() {
            *c = Some(FAMILIES.iter().map(|(_, doc)| docs::dispatch(doc, LearnW).flatten()).collect());
        }
        c.clone().unwrap()
    })
}

/// The value of a document for value index `vi`: its top-level variants first, then seeded values.
fn value_for<D: Doc>(seed: u64, vi: u64, tier: Tier) -> Option<PrepDocLite<D>> {
    let mut r = Rng::new(mix(seed, "c15variants", fx(D::NAME), 0));
    let vs = D::variants(&mut r, 3);
    let nv = vs.len() as u64;
    let v: D = if vi < nv {
        vs.into_iter().nth(vi as usize).unwrap()
    } else {
        gen_value::<D>(seed, ID, vi - nv, tier).0
    };
    let mut b: Vec<u8> = Vec::new();
    let schema = match catch(|| v.serialize_with_schema(&mut b)) {
        Ok(Ok(s)) => s,
        _ => return None,
    };
    if b.len() + 8192 > ARENA_CAP {
        return None;
    }
    let mut canon_v = Vec::new();
    v.canon(&mut canon_v);
    let rt = |eps: bool| matches!(run_one::<D>(&b, eps), Ok(Out::Value(c)) if c == canon_v);
    let round_trip_ok = rt(false) && rt(true);
    Some(PrepDocLite { v, b, schema, round_trip_ok })
}
struct PrepDocLite<D: Doc> {
    v: D,
    b: Vec<u8>,
    schema: epserde::ser::Schema,
    /// the unmodified stream deserializes, in both modes, to the value that was serialized: required before
    /// *nested* tag positions are attacked (an unrelated round-trip defect in another field would otherwise
    /// show up as a wrong error for the foreign tag)
    round_trip_ok: bool,
}

fn tag_rows(schema: &epserde::ser::Schema, b: &[u8]) -> Vec<TagRow> {
    let rows = &schema.0;
    let mut out = Vec::new();
    for (i, r) in rows.iter().enumerate() {
        let is_tag = r.field.ends_with(".Tag") || r.field.ends_with(".tag");
        if !is_tag || (r.size != 1 && r.size != 8) {
            continue;
        }
        let parent_field = &r.field[..r.field.len() - 4];
        let parent = rows[..i].iter().rev().find(|q| q.field == parent_field && q.offset == r.offset);
        let family = parent.and_then(|q| FAMILIES.iter().position(|(pre, _)| q.ty.starts_with(pre)));
        out.push(TagRow { offset: r.offset, size: r.size, family, original: read_tag(b, r.offset, r.size), nested: parent_field != "ROOT", last: r.offset + r.size == b.len() });
    }
    out
}

fn candidate_tags(size: usize, nvariants: u64) -> Vec<u64> {
    if size == 1 {
        (0..=255).collect()
    } else {
        let n = nvariants;
        let mut v: Vec<u64> = (0..=n + 2).collect();
        v.extend([255, 256, 257, 1 << 16, 1 << 32, (1 << 32) + 1, 1 << 56, u64::MAX - 1, u64::MAX]);
        for j in 1..4u64 {
            for base in 0..n {
                v.push(base + 256 * j); // a reader that narrows the tag to u8 would accept these
                v.push(base + (j << 32)); // … or to u32
            }
        }
        v.sort_unstable();
        v.dedup();
        v
    }
}

enum Out {
    Value(Vec<u8>),
    Err(String),
}

fn run_one<D: Doc>(bytes: &[u8], eps: bool) -> Result<Out, String> {
    if eps {
        with_arena(|a| {
            let s = a.place(bytes, 0);
            catch(|| match D::deserialize_eps(s) {
                Ok(v) => {
                    let mut c = Vec::new();
                    D::canon_eps(&v, &mut c);
                    Out::Value(c)
                }
                Err(e) => Out::Err(deser_err_name(&e)),
            })
        })
    } else {
        catch(|| match D::deserialize_full(&mut std::io::Cursor::new(bytes)) {
            Ok(v) => {
                let mut c = Vec::new();
                v.canon(&mut c);
                Out::Value(c)
            }
            Err(e) => Out::Err(deser_err_name(&e)),
        })
    }
}

/// Ok(None) = case not applicable (tag of another variant / unknown family): not executed.
fn exec<D: Doc>(p: &PrepDocLite<D>, rows: &[TagRow], w: &[Option<Vec<u64>>], tag_row: usize, tag: u64, eps: bool) -> Result<Option<(u64, &'static str)>, Violation> {
    crate::ctx::scrub_stack();
    let Some(row) = rows.get(tag_row) else { return Ok(None) };
    let Some(fam) = row.family else { return Ok(None) };
    let Some(wset) = &w[fam] else { return Ok(None) };
    if row.size < 8 && tag >> (8 * row.size) != 0 {
        return Ok(None);
    }
    let mode = if eps { "deserialize_eps" } else { "deserialize_full" };
    let what = format!("{} of a {} stream whose {} tag at offset {} (written {}) is set to {}", mode, D::NAME, FAMILIES[fam].0.trim_end_matches('<'), row.offset, row.original, tag);
    let mut canon_v = Vec::new();
    p.v.canon(&mut canon_v);
    if row.nested && !p.round_trip_ok {
        return Ok(None);
    }
    if tag == row.original {
        if row.nested {
            // "maps back to the same variant with the same payload" is judged where the document *is* the sum
            // type (top-level tag); at nested positions the whole-document comparison would also judge the
            // unrelated fields around it
            return Ok(None);
        }
        // the tag written for this variant must map back to the same variant and payload
        match run_one::<D>(&p.b, eps) {
            Err(pm) => Err(Violation::new("C15/panic", format!("{}: panicked ({})", what, pm))),
            Ok(Out::Err(e)) => Err(Violation::new("C15/written-tag-rejected", format!("{}: the tag the serializer wrote is rejected with {}", what, e))),
            Ok(Out::Value(c)) => {
                if c == canon_v {
                    Ok(Some((Fnv::new().str("same").get(), "written_tag_maps_back")))
                } else {
                    Err(Violation::new("C15/wrong-variant", format!("{}: deserializes to a different variant or payload than the one serialized", what)))
                }
            }
        }
    } else if !wset.contains(&tag) {
        let mut bytes = p.b.clone();
        write_tag(&mut bytes, row.offset, row.size, tag);
        let want = format!("InvalidTag({})", tag);
        match run_one::<D>(&bytes, eps) {
            Err(pm) => Err(Violation::new("C15/panic", format!("{}: panicked ({})", what, pm))),
            Ok(Out::Value(_)) => Err(Violation::new("C15/foreign-tag-accepted", format!("{}: a tag that no variant writes was mapped to a value", what))),
            Ok(Out::Err(e)) if e == want => Ok(Some((Fnv::new().str(&e).get(), "foreign_tag_rejected"))),
            Ok(Out::Err(e)) => Err(Violation::new("C15/wrong-tag-reported", format!("{}: expected {}, got {}", what, want, e))),
        }
    } else {
        Ok(None) // a valid tag of another variant: the payload bytes are then foreign; unconstrained
    }
}

pub fn n_values(tier: Tier) -> u64 {
    values_per_doc(tier, 40, 30000)
}
pub fn n_units(tier: Tier) -> u64 {
    n_docs() * n_values(tier)
}

fn subs_for(rows: &[TagRow], w: &[Option<Vec<u64>>]) -> Vec<(usize, u64, bool)> {
    let mut out = Vec::new();
    for (i, row) in rows.iter().enumerate() {
        let nvar = row.family.and_then(|f| w[f].as_ref().map(|x| x.len() as u64)).unwrap_or(0);
        for t in candidate_tags(row.size, nvar) {
            out.push((i, t, false));
            out.push((i, t, true));
        }
    }
    out
}

struct RunUnit<'a> {
    ctx: &'a mut Ctx,
    unit: u64,
    vi: u64,
}
impl DocFn for RunUnit<'_> {
    type Out = ();
    fn call<D: Doc>(self) {
        let RunUnit { ctx, unit, vi } = self;
        ctx.begin(unit, u64::MAX);
        let w = families_w();
        let Some(p) = value_for::<D>(ctx.seed, vi, ctx.tier) else {
            ctx.count("control_failures");
            return;
        };
        let rows = tag_rows(&p.schema, &p.b);
        if rows.is_empty() {
            return;
        }
        // at most 6 tag positions per stream (first, last, and a spread) to bound the cost of large values
        let keep: Vec<usize> = if rows.len() <= 6 { (0..rows.len()).collect() } else { vec![0, 1, rows.len() / 3, rows.len() / 2, rows.len() - 2, rows.len() - 1] };
        ctx.docs_seen.insert(D::NAME.to_string());
        let mut canon_v = Vec::new();
        p.v.canon(&mut canon_v);
        let canon_digest = Fnv::new().bytes(&canon_v).get();
        for (sub, (ri, tag, eps)) in subs_for(&rows, &w).into_iter().enumerate() {
            if !keep.contains(&ri) {
                continue;
            }
            let sub = sub as u64;
            ctx.begin(unit, sub);
            match exec(&p, &rows, &w, ri, tag, eps) {
                Ok(None) => {
                    if rows[ri].family.is_none() {
                        ctx.count("skipped.unknown_family");
                    } else if rows[ri].nested && !p.round_trip_ok {
                        ctx.count("skipped.nested_tag_in_document_whose_round_trip_fails");
                    }
                }
                Ok(Some((digest, kind))) => {
                    ctx.logical_steps += 1;
                    let row = &rows[ri];
                    ctx.count(&format!("fault.{}", kind));
                    let famname = FAMILIES[row.family.unwrap()].1;
                    ctx.count(&format!("family.{}", famname));
                    if row.nested {
                        ctx.count("probe.nested_tag");
                    } else {
                        ctx.count("probe.top_level_tag");
                    }
                    if row.last {
                        ctx.count("probe.tag_is_last_byte_of_stream");
                    }
                    if row.size == 8 && tag > 0xffff_ffff {
                        ctx.count("probe.word_tag_above_u32");
                    }
                    ctx.count(&format!("variant.{}.{}", famname, row.original));
                    let nt = if kind == "foreign_tag_rejected" { Some(Fnv::new().str(D::NAME).u64(canon_digest).u64(ri as u64).u64(tag).u64(eps as u64).get()) } else { None };
                    ctx.done(unit, sub, digest, nt);
                    if kind == "foreign_tag_rejected" && sub % 173 == 9 {
                        ctx.sample(|| serde_json::json!({"case": Case { doc: D::NAME.into(), vi, tag_row: ri, tag, eps }, "tag_offset": row.offset, "tag_size": row.size, "written": row.original, "stream_len": p.b.len()}));
                    }
                }
                Err(v) => {
                    ctx.done(unit, sub, Fnv::new().str(&v.class).get(), None);
                    ctx.violation(v, unit, sub, || serde_json::to_value(&Case { doc: D::NAME.into(), vi, tag_row: ri, tag, eps }).unwrap());
                }
            }
        }
    }
}

pub fn run_unit(ctx: &mut Ctx, unit: u64) {
    let (doc, vi) = unit_doc(unit);
    docs::dispatch(doc, RunUnit { ctx, unit, vi });
}

struct CaseAt {
    seed: u64,
    tier: Tier,
    vi: u64,
    sub: u64,
}
impl DocFn for CaseAt {
    type Out = Option<Case>;
    fn call<D: Doc>(self) -> Option<Case> {
        let w = families_w();
        let p = value_for::<D>(self.seed, self.vi, self.tier)?;
        let rows = tag_rows(&p.schema, &p.b);
        subs_for(&rows, &w).get(self.sub as usize).map(|(ri, tag, eps)| Case { doc: D::NAME.into(), vi: self.vi, tag_row: *ri, tag: *tag, eps: *eps })
    }
}
pub fn case_at(ctx: &mut Ctx, unit: u64, sub: u64) -> Option<serde_json::Value> {
    let (doc, vi) = unit_doc(unit);
    docs::dispatch(doc, CaseAt { seed: ctx.seed, tier: ctx.tier, vi, sub }).flatten().map(|c| serde_json::to_value(&c).unwrap())
}

struct Replay<'a> {
    case: &'a Case,
    seed: u64,
    tier: Tier,
}
impl DocFn for Replay<'_> {
    type Out = Result<Option<Violation>, String>;
    fn call<D: Doc>(self) -> Self::Out {
        let w = families_w();
        let Some(p) = value_for::<D>(self.seed, self.case.vi, self.tier) else { return Err("the value cannot be serialized".into()) };
        let rows = tag_rows(&p.schema, &p.b);
        Ok(exec(&p, &rows, &w, self.case.tag_row, self.case.tag, self.case.eps).err())
    }
}
pub fn replay(case: &serde_json::Value, ctx: &mut Ctx) -> Result<Option<Violation>, String> {
    let c: Case = serde_json::from_value(case.clone()).map_err(|e| e.to_string())?;
    docs::dispatch(&c.doc, Replay { case: &c, seed: ctx.seed, tier: ctx.tier }).unwrap_or(Err("unknown document".into()))
}

pub fn shrink(case: &serde_json::Value) -> Vec<serde_json::Value> {
    let Ok(c) = serde_json::from_value::<Case>(case.clone()) else { return vec![] };
    let mut out: Vec<Case> = Vec::new();
    if c.tag_row > 0 {
        out.push(Case { tag_row: 0, ..c.clone() });
    }
    if c.eps {
        out.push(Case { eps: false, ..c.clone() });
    }
    if c.tag > 3 {
        out.push(Case { tag: c.tag / 2, ..c.clone() });
        out.push(Case { tag: c.tag - 1, ..c.clone() });
    }
    out.into_iter().map(|d| serde_json::to_value(&d).unwrap()).collect()
}

#[allow(dead_code)]
fn _unused(_: BTreeMap<u8, u8>) {}
