//! Workload universe: a fixed registry of concrete document types behind one trait, each with a
//! seeded value generator of adjustable size. Rust types are static, so "all types" is this list.
#![allow(dead_code)]

use crate::canon::{Canon, Part};
use crate::rng::Rng;
use epserde::deser::{DeserType, Deserialize, DeserializeInner, MemCase};
use epserde::prelude::Epserde;
use epserde::ser::Serialize;
use std::num::NonZeroU16;
use std::ops::{Bound, ControlFlow, Range, RangeFrom, RangeFull, RangeInclusive, RangeTo, RangeToInclusive};
use std::path::Path;

// ---------------------------------------------------------------------------------------
// value generation

pub trait Gen: Sized {
    /// `size` ≈ number of elements of the outermost collection; nested collections are small.
    fn gen(r: &mut Rng, size: usize) -> Self;
}

fn inner_size(r: &mut Rng, size: usize) -> usize {
    r.below(size.min(5) as u64 + 1) as usize
}

macro_rules! gen_int {
    ($($t:ty),*) => {$(
        impl Gen for $t {
            fn gen(r: &mut Rng, _size: usize) -> Self {
                match r.below(8) {
                    0 => 0 as $t,
                    1 => 1 as $t,
                    2 => <$t>::MAX,
                    3 => <$t>::MIN,
                    4 => <$t>::MAX - 1,
                    _ => { let mut b = [0u8; std::mem::size_of::<$t>()]; r.bytes(&mut b); <$t>::from_le_bytes(b) }
                }
            }
        }
    )*};
}
gen_int!(u8, u16, u32, u64, u128, usize, i8, i16, i32, i64, i128, isize);

impl Gen for f32 {
    fn gen(r: &mut Rng, _s: usize) -> Self {
        match r.below(6) {
            0 => f32::from_bits(0x7fc0_1234), // NaN with payload
            1 => f32::from_bits(0xffa0_0001), // signalling NaN, negative
            2 => -0.0,
            3 => f32::INFINITY,
            _ => f32::from_bits(r.next() as u32),
        }
    }
}
impl Gen for f64 {
    fn gen(r: &mut Rng, _s: usize) -> Self {
        match r.below(6) {
            0 => f64::from_bits(0x7ff8_0000_dead_beef),
            1 => f64::from_bits(0xfff4_0000_0000_0001),
            2 => -0.0,
            3 => f64::NEG_INFINITY,
            _ => f64::from_bits(r.next()),
        }
    }
}
impl Gen for bool {
    fn gen(r: &mut Rng, _s: usize) -> Self {
        r.below(2) == 1
    }
}
const CHARS: [char; 12] = ['a', 'Z', '0', ' ', '\u{0}', 'é', 'ß', '中', '😀', '\u{10FFFF}', '\u{7f}', '\u{d7ff}'];
impl Gen for char {
    fn gen(r: &mut Rng, _s: usize) -> Self {
        *r.pick(&CHARS)
    }
}
impl Gen for NonZeroU16 {
    fn gen(r: &mut Rng, s: usize) -> Self {
        NonZeroU16::new(u16::gen(r, s).max(1)).unwrap()
    }
}
impl Gen for () {
    fn gen(_r: &mut Rng, _s: usize) -> Self {}
}
impl Gen for String {
    fn gen(r: &mut Rng, size: usize) -> Self {
        let mut s = String::new();
        let ascii_only = r.below(3) == 0;
        for _ in 0..size {
            if ascii_only {
                s.push((b'a' + r.below(26) as u8) as char);
            } else {
                s.push(char::gen(r, 0));
            }
        }
        s
    }
}
impl Gen for Box<str> {
    fn gen(r: &mut Rng, size: usize) -> Self {
        String::gen(r, size).into_boxed_str()
    }
}
impl<T: Gen> Gen for Vec<T> {
    fn gen(r: &mut Rng, size: usize) -> Self {
        let mut v = Vec::with_capacity(size);
        for _ in 0..size {
            let s = inner_size(r, size);
            v.push(T::gen(r, s));
        }
        v
    }
}
impl<T: Gen> Gen for Box<[T]> {
    fn gen(r: &mut Rng, size: usize) -> Self {
        Vec::<T>::gen(r, size).into_boxed_slice()
    }
}
impl<T: Gen, const N: usize> Gen for [T; N] {
    fn gen(r: &mut Rng, size: usize) -> Self {
        std::array::from_fn(|_| T::gen(r, size))
    }
}
impl<T: Gen> Gen for (T,) {
    fn gen(r: &mut Rng, s: usize) -> Self {
        (T::gen(r, s),)
    }
}
impl<T: Gen> Gen for (T, T) {
    fn gen(r: &mut Rng, s: usize) -> Self {
        (T::gen(r, s), T::gen(r, s))
    }
}
impl<T: Gen> Gen for (T, T, T) {
    fn gen(r: &mut Rng, s: usize) -> Self {
        (T::gen(r, s), T::gen(r, s), T::gen(r, s))
    }
}
impl<T: Gen> Gen for Option<T> {
    fn gen(r: &mut Rng, s: usize) -> Self {
        if r.below(3) == 0 {
            None
        } else {
            Some(T::gen(r, s))
        }
    }
}
impl<T: Gen> Gen for Bound<T> {
    fn gen(r: &mut Rng, s: usize) -> Self {
        match r.below(3) {
            0 => Bound::Unbounded,
            1 => Bound::Included(T::gen(r, s)),
            _ => Bound::Excluded(T::gen(r, s)),
        }
    }
}
impl<B: Gen, C: Gen> Gen for ControlFlow<B, C> {
    fn gen(r: &mut Rng, s: usize) -> Self {
        if r.below(2) == 0 {
            ControlFlow::Break(B::gen(r, s))
        } else {
            ControlFlow::Continue(C::gen(r, s))
        }
    }
}
impl<T: Gen> Gen for Range<T> {
    fn gen(r: &mut Rng, s: usize) -> Self {
        T::gen(r, s)..T::gen(r, s)
    }
}
impl<T: Gen> Gen for RangeInclusive<T> {
    fn gen(r: &mut Rng, s: usize) -> Self {
        T::gen(r, s)..=T::gen(r, s)
    }
}
impl<T: Gen> Gen for RangeFrom<T> {
    fn gen(r: &mut Rng, s: usize) -> Self {
        T::gen(r, s)..
    }
}
impl<T: Gen> Gen for RangeTo<T> {
    fn gen(r: &mut Rng, s: usize) -> Self {
        ..T::gen(r, s)
    }
}
impl<T: Gen> Gen for RangeToInclusive<T> {
    fn gen(r: &mut Rng, s: usize) -> Self {
        ..=T::gen(r, s)
    }
}
impl Gen for RangeFull {
    fn gen(_r: &mut Rng, _s: usize) -> Self {
        ..
    }
}

// ---------------------------------------------------------------------------------------
// derived types

#[derive(Epserde, Copy, Clone, Debug)]
#[repr(C)]
#[zero_copy]
pub struct ZeroS {
    pub a: u32,
    pub b: u16,
    pub c: u16,
}
impl Gen for ZeroS {
    fn gen(r: &mut Rng, s: usize) -> Self {
        ZeroS { a: u32::gen(r, s), b: u16::gen(r, s), c: u16::gen(r, s) }
    }
}
impl Canon for ZeroS {
    fn canon(&self, out: &mut Vec<u8>) {
        self.a.canon(out);
        self.b.canon(out);
        self.c.canon(out);
    }
}

/// Zero-copy with interior and trailing padding.
#[derive(Epserde, Copy, Clone, Debug)]
#[repr(C)]
#[zero_copy]
pub struct ZeroP {
    pub a: u8,
    pub b: u64,
    pub c: u16,
}
impl Gen for ZeroP {
    fn gen(r: &mut Rng, s: usize) -> Self {
        ZeroP { a: u8::gen(r, s), b: u64::gen(r, s), c: u16::gen(r, s) }
    }
}
impl Canon for ZeroP {
    fn canon(&self, out: &mut Vec<u8>) {
        self.a.canon(out);
        self.b.canon(out);
        self.c.canon(out);
    }
}

/// Zero-copy with an alignment unit (32) larger than every primitive.
#[derive(Epserde, Copy, Clone, Debug)]
#[repr(C)]
#[repr(align(32))]
#[zero_copy]
pub struct Z32 {
    pub a: u64,
    pub b: u32,
}
impl Gen for Z32 {
    fn gen(r: &mut Rng, s: usize) -> Self {
        Z32 { a: u64::gen(r, s), b: u32::gen(r, s) }
    }
}
impl Canon for Z32 {
    fn canon(&self, out: &mut Vec<u8>) {
        self.a.canon(out);
        self.b.canon(out);
    }
}

/// Zero-copy with the largest alignment unit the heap loader supports (64 = MemoryAlignment).
#[derive(Epserde, Copy, Clone, Debug)]
#[repr(C)]
#[repr(align(64))]
#[zero_copy]
pub struct Z64 {
    pub a: u16,
    pub b: u64,
}
impl Gen for Z64 {
    fn gen(r: &mut Rng, s: usize) -> Self {
        Z64 { a: u16::gen(r, s), b: u64::gen(r, s) }
    }
}
impl Canon for Z64 {
    fn canon(&self, out: &mut Vec<u8>) {
        self.a.canon(out);
        self.b.canon(out);
    }
}

/// Zero-copy with an alignment unit (128) *above* what the heap loaders support: used by the placement check
/// (C12) only, where residues 64 (mod 128) must be refused although they satisfy every smaller unit.
#[derive(Epserde, Copy, Clone, Debug)]
#[repr(C)]
#[repr(align(128))]
#[zero_copy]
pub struct Z128 {
    pub a: u32,
    pub b: u64,
}
impl Gen for Z128 {
    fn gen(r: &mut Rng, s: usize) -> Self {
        Z128 { a: u32::gen(r, s), b: u64::gen(r, s) }
    }
}
impl Canon for Z128 {
    fn canon(&self, out: &mut Vec<u8>) {
        self.a.canon(out);
        self.b.canon(out);
    }
}

/// Zero-copy enum.
#[derive(Epserde, Copy, Clone, Debug)]
#[repr(C)]
#[zero_copy]
pub enum EnumZ {
    A,
    B(u64),
    C { x: i32, y: i32 },
}
impl Gen for EnumZ {
    fn gen(r: &mut Rng, s: usize) -> Self {
        match r.below(3) {
            0 => EnumZ::A,
            1 => EnumZ::B(u64::gen(r, s)),
            _ => EnumZ::C { x: i32::gen(r, s), y: i32::gen(r, s) },
        }
    }
}
impl Canon for EnumZ {
    fn canon(&self, out: &mut Vec<u8>) {
        match self {
            EnumZ::A => out.push(0),
            EnumZ::B(v) => {
                out.push(1);
                v.canon(out)
            }
            EnumZ::C { x, y } => {
                out.push(2);
                x.canon(out);
                y.canon(out)
            }
        }
    }
}

/// Deep-copy struct: parameter fields (ε-copied) and non-parameter fields (fully copied).
#[derive(Epserde, Clone, Debug)]
pub struct DeepS<A, B> {
    pub a: A,
    pub n: Vec<ZeroP>,
    pub b: B,
    pub o: Option<Vec<u16>>,
    pub s: [String; 2],
    pub x: u32,
}
impl<A: Gen, B: Gen> Gen for DeepS<A, B> {
    fn gen(r: &mut Rng, size: usize) -> Self {
        let small = inner_size(r, size);
        DeepS { a: A::gen(r, size), n: Vec::gen(r, small), b: B::gen(r, small), o: Option::gen(r, small), s: <[String; 2]>::gen(r, small), x: u32::gen(r, 0) }
    }
}
impl<A: Canon, B: Canon> Canon for DeepS<A, B> {
    fn canon(&self, out: &mut Vec<u8>) {
        self.a.canon(out);
        self.n.canon(out);
        self.b.canon(out);
        self.o.canon(out);
        self.s.canon(out);
        self.x.canon(out);
    }
    fn parts(&self, out: &mut Vec<Part>) {
        self.a.parts(out);
        self.b.parts(out);
    }
}

#[derive(Epserde, Clone, Debug)]
pub struct TupleS<A>(pub u32, pub A);
impl<A: Gen> Gen for TupleS<A> {
    fn gen(r: &mut Rng, size: usize) -> Self {
        TupleS(u32::gen(r, 0), A::gen(r, size))
    }
}
impl<A: Canon> Canon for TupleS<A> {
    fn canon(&self, out: &mut Vec<u8>) {
        self.0.canon(out);
        self.1.canon(out);
    }
    fn parts(&self, out: &mut Vec<Part>) {
        self.1.parts(out);
    }
}

/// Deep-copy enum with unit, tuple and struct variants.
#[derive(Epserde, Clone, Debug)]
pub enum EnumD<T> {
    U,
    T(T, u8),
    S { x: Vec<String>, y: T },
}
impl<T: Gen> Gen for EnumD<T> {
    fn gen(r: &mut Rng, size: usize) -> Self {
        let v = r.below(3) as usize;
        Self::variant(v, r, size)
    }
}
impl<T: Gen> EnumD<T> {
    fn variant(v: usize, r: &mut Rng, size: usize) -> Self {
        match v {
            0 => EnumD::U,
            1 => EnumD::T(T::gen(r, size), u8::gen(r, 0)),
            _ => {
                let s = inner_size(r, size);
                EnumD::S { x: Vec::gen(r, s), y: T::gen(r, size) }
            }
        }
    }
}
impl<T: Canon> Canon for EnumD<T> {
    fn canon(&self, out: &mut Vec<u8>) {
        match self {
            EnumD::U => out.push(0),
            EnumD::T(a, b) => {
                out.push(1);
                a.canon(out);
                b.canon(out)
            }
            EnumD::S { x, y } => {
                out.push(2);
                x.canon(out);
                y.canon(out)
            }
        }
    }
    fn parts(&self, out: &mut Vec<Part>) {
        match self {
            EnumD::U => {}
            EnumD::T(a, _) => a.parts(out),
            EnumD::S { y, .. } => y.parts(out),
        }
    }
}

#[derive(Epserde, Clone, Debug)]
#[deep_copy]
pub enum E1 {
    Only,
}
#[derive(Epserde, Clone, Debug)]
#[deep_copy]
pub enum E2 {
    A,
    B(u8),
}
#[derive(Epserde, Clone, Debug)]
pub enum E9 {
    V0,
    V1(u8),
    V2,
    V3(u16),
    V4,
    V5 { q: u32 },
    V6,
    V7(String),
    V8,
}
impl E9 {
    fn variant(v: usize, r: &mut Rng, size: usize) -> Self {
        match v {
            0 => E9::V0,
            1 => E9::V1(u8::gen(r, 0)),
            2 => E9::V2,
            3 => E9::V3(u16::gen(r, 0)),
            4 => E9::V4,
            5 => E9::V5 { q: u32::gen(r, 0) },
            6 => E9::V6,
            7 => E9::V7(String::gen(r, size.min(9))),
            _ => E9::V8,
        }
    }
}
impl Gen for E1 {
    fn gen(_r: &mut Rng, _s: usize) -> Self {
        E1::Only
    }
}
impl Gen for E2 {
    fn gen(r: &mut Rng, _s: usize) -> Self {
        if r.below(2) == 0 {
            E2::A
        } else {
            E2::B(u8::gen(r, 0))
        }
    }
}
impl Gen for E9 {
    fn gen(r: &mut Rng, s: usize) -> Self {
        let v = r.below(9) as usize;
        E9::variant(v, r, s)
    }
}
impl Canon for E1 {
    fn canon(&self, out: &mut Vec<u8>) {
        out.push(0);
    }
}
impl Canon for E2 {
    fn canon(&self, out: &mut Vec<u8>) {
        match self {
            E2::A => out.push(0),
            E2::B(b) => {
                out.push(1);
                b.canon(out)
            }
        }
    }
}
impl Canon for E9 {
    fn canon(&self, out: &mut Vec<u8>) {
        match self {
            E9::V0 => out.push(0),
            E9::V1(a) => {
                out.push(1);
                a.canon(out)
            }
            E9::V2 => out.push(2),
            E9::V3(a) => {
                out.push(3);
                a.canon(out)
            }
            E9::V4 => out.push(4),
            E9::V5 { q } => {
                out.push(5);
                q.canon(out)
            }
            E9::V6 => out.push(6),
            E9::V7(s) => {
                out.push(7);
                s.canon(out)
            }
            E9::V8 => out.push(8),
        }
    }
}

/// The test suite's own MemCase document.
#[derive(Epserde, Clone, Debug)]
pub struct PersonVec<A, B> {
    pub a: A,
    pub b: B,
    pub test: isize,
}
#[derive(Epserde, Clone, Debug)]
pub struct Data<A> {
    pub a: A,
    pub b: Vec<i32>,
}
pub type Person = PersonVec<Vec<usize>, Data<Vec<u16>>>;
impl<A: Gen, B: Gen> Gen for PersonVec<A, B> {
    fn gen(r: &mut Rng, size: usize) -> Self {
        PersonVec { a: A::gen(r, size), b: B::gen(r, size), test: isize::gen(r, 0) }
    }
}
impl<A: Gen> Gen for Data<A> {
    fn gen(r: &mut Rng, size: usize) -> Self {
        let s = inner_size(r, size);
        Data { a: A::gen(r, size), b: Vec::gen(r, s) }
    }
}
impl<A: Canon, B: Canon> Canon for PersonVec<A, B> {
    fn canon(&self, out: &mut Vec<u8>) {
        self.a.canon(out);
        self.b.canon(out);
        self.test.canon(out);
    }
    fn parts(&self, out: &mut Vec<Part>) {
        self.a.parts(out);
        self.b.parts(out);
    }
}
impl<A: Canon> Canon for Data<A> {
    fn canon(&self, out: &mut Vec<u8>) {
        self.a.canon(out);
        self.b.canon(out);
    }
    fn parts(&self, out: &mut Vec<Part>) {
        self.a.parts(out);
    }
}

#[derive(Epserde, Clone, Debug)]
pub struct ConstGen<const N: usize> {
    pub arr: [u32; N],
    pub v: Vec<u8>,
}
impl<const N: usize> Gen for ConstGen<N> {
    fn gen(r: &mut Rng, size: usize) -> Self {
        ConstGen { arr: <[u32; N]>::gen(r, 0), v: Vec::gen(r, size) }
    }
}
impl<const N: usize> Canon for ConstGen<N> {
    fn canon(&self, out: &mut Vec<u8>) {
        self.arr.canon(out);
        self.v.canon(out);
    }
}

#[derive(Epserde, Clone, Debug)]
pub struct Phantom<T> {
    pub v: Vec<u16>,
    pub p: std::marker::PhantomData<T>,
}
impl<T> Gen for Phantom<T> {
    fn gen(r: &mut Rng, size: usize) -> Self {
        Phantom { v: Vec::gen(r, size), p: std::marker::PhantomData }
    }
}
impl<T> Canon for Phantom<T> {
    fn canon(&self, out: &mut Vec<u8>) {
        self.v.canon(out);
    }
}

/// `pad` sweeps the stream length through every residue modulo 64.
#[derive(Epserde, Clone, Debug)]
pub struct Padded<A> {
    pub inner: A,
    pub pad: String,
}
impl<A: Gen> Gen for Padded<A> {
    fn gen(r: &mut Rng, size: usize) -> Self {
        let n = r.below(64) as usize;
        let mut pad = String::new();
        for _ in 0..n {
            pad.push((b'a' + r.below(26) as u8) as char);
        }
        Padded { inner: A::gen(r, size), pad }
    }
}
/// Make the stream length of a `Padded` value ≡ delta (mod modulus), at least modulus + delta.
pub fn fit_padded<A>(v: &mut Padded<A>, modulus: usize, delta: isize) -> bool
where
    Padded<A>: Serialize,
{
    v.pad.clear();
    let mut b = Vec::new();
    if v.serialize(&mut b).is_err() {
        return false;
    }
    let base = b.len();
    let want = (modulus as isize + delta) as usize % modulus;
    let mut n = (want + modulus - base % modulus) % modulus;
    if base + n < modulus {
        n += modulus;
    }
    if base + n < (modulus as isize + delta).max(0) as usize {
        n += modulus;
    }
    v.pad = "p".repeat(n);
    true
}
impl<A: Canon> Canon for Padded<A> {
    fn canon(&self, out: &mut Vec<u8>) {
        self.inner.canon(out);
        self.pad.canon(out);
    }
    fn parts(&self, out: &mut Vec<Part>) {
        self.inner.parts(out);
    }
}

/// Its `Drop` reads the (possibly borrowed) slice and records (tag, checksum): a structure dropped
/// after its backing memory was released shows up as a wrong checksum (poison / unmapped).
#[derive(Epserde, Debug)]
pub struct DropProbe<A: AsRef<[u64]>> {
    pub data: A,
    pub mark: u64,
}
pub static DROP_LOG: std::sync::Mutex<Vec<(u64, u64)>> = std::sync::Mutex::new(Vec::new());
pub fn probe_sum(xs: &[u64]) -> u64 {
    let mut h = crate::rng::Fnv::new();
    for &x in xs {
        h.u64(x);
    }
    h.get()
}
impl<A: AsRef<[u64]>> Drop for DropProbe<A> {
    fn drop(&mut self) {
        let _g = crate::tracker::sim_enter();
        let s = probe_sum(self.data.as_ref());
        if let Ok(mut l) = DROP_LOG.lock() {
            l.push((self.mark, s));
        }
    }
}
impl Gen for DropProbe<Vec<u64>> {
    fn gen(r: &mut Rng, size: usize) -> Self {
        DropProbe { data: Vec::gen(r, size), mark: r.next() | 1 }
    }
}
impl<A: AsRef<[u64]>> Canon for DropProbe<A> {
    fn canon(&self, out: &mut Vec<u8>) {
        self.data.as_ref().canon(out);
        self.mark.canon(out);
    }
    fn parts(&self, out: &mut Vec<Part>) {
        let s = self.data.as_ref();
        // for the owned form this is the vector's own heap block, which is harmless: parts are only
        // asked of ε-copy forms.
        out.push(Part { addr: s.as_ptr() as usize, len: std::mem::size_of_val(s), align: 8 });
    }
}

/// Zero-copy blocks with increasing alignment units, smaller first (a placement that suits the
/// first block need not suit the later ones).
#[derive(Epserde, Clone, Debug)]
pub struct Incr<A, B, C, D> {
    pub a: A,
    pub b: B,
    pub c: C,
    pub d: D,
}
impl<A: Gen, B: Gen, C: Gen, D: Gen> Gen for Incr<A, B, C, D> {
    fn gen(r: &mut Rng, size: usize) -> Self {
        let s1 = inner_size(r, size);
        let s2 = inner_size(r, size);
        Incr { a: A::gen(r, size), b: B::gen(r, s1), c: C::gen(r, s2), d: D::gen(r, size.min(3)) }
    }
}
impl<A: Canon, B: Canon, C: Canon, D: Canon> Canon for Incr<A, B, C, D> {
    fn canon(&self, out: &mut Vec<u8>) {
        self.a.canon(out);
        self.b.canon(out);
        self.c.canon(out);
        self.d.canon(out);
    }
    fn parts(&self, out: &mut Vec<Part>) {
        self.a.parts(out);
        self.b.parts(out);
        self.c.parts(out);
        self.d.parts(out);
    }
}

/// Non-parameter fields that are *single* zero-copy values (a zero-copy struct, a tuple, an
/// over-aligned struct, a zero-copy enum): inside an ε-copy deserialization these are read through
/// the full-copy helper for one zero-copy value, which must still refuse a misplaced buffer.
#[derive(Epserde, Clone, Debug)]
pub struct Holder<A> {
    pub a: A,
    pub p: ZeroP,
    pub t: (u32, u32, u32),
    pub z: Z32,
    pub e: EnumZ,
    pub s: String,
    pub q: ZeroS,
}
impl<A: Gen> Gen for Holder<A> {
    fn gen(r: &mut Rng, size: usize) -> Self {
        let s = inner_size(r, size);
        Holder { a: A::gen(r, size), p: ZeroP::gen(r, 0), t: <(u32, u32, u32)>::gen(r, 0), z: Z32::gen(r, 0), e: EnumZ::gen(r, 0), s: String::gen(r, s), q: ZeroS::gen(r, 0) }
    }
}
impl<A: Canon> Canon for Holder<A> {
    fn canon(&self, out: &mut Vec<u8>) {
        self.a.canon(out);
        self.p.canon(out);
        self.t.canon(out);
        self.z.canon(out);
        self.e.canon(out);
        self.s.canon(out);
        self.q.canon(out);
    }
    fn parts(&self, out: &mut Vec<Part>) {
        self.a.parts(out);
    }
}

/// Breadth: two parameters (instantiated with single zero-copy values, arrays, tuples, boxed slices,
/// options of zero-copy values) next to non-parameter fields of every remaining built-in kind.
#[derive(Epserde, Clone, Debug)]
pub struct Misc<A, B> {
    pub a: A,
    pub bs: Box<[u16]>,
    pub b: B,
    pub st: Box<str>,
    pub c: char,
    pub f: bool,
    pub nz: NonZeroU16,
    pub r: Range<u32>,
    pub bd: Bound<u64>,
    pub cf: ControlFlow<u8, u16>,
    pub arr: [u64; 2],
    pub ph: std::marker::PhantomData<u8>,
    pub u: (),
    pub last: u8,
}
impl<A: Gen, B: Gen> Gen for Misc<A, B> {
    fn gen(r: &mut Rng, size: usize) -> Self {
        let s = inner_size(r, size);
        Misc {
            a: A::gen(r, size),
            bs: <Box<[u16]>>::gen(r, s),
            b: B::gen(r, s),
            st: <Box<str>>::gen(r, s),
            c: char::gen(r, 0),
            f: bool::gen(r, 0),
            nz: NonZeroU16::gen(r, 0),
            r: Range::gen(r, 0),
            bd: Bound::gen(r, 0),
            cf: ControlFlow::gen(r, 0),
            arr: <[u64; 2]>::gen(r, 0),
            ph: std::marker::PhantomData,
            u: (),
            last: u8::gen(r, 0),
        }
    }
}
impl<A: Canon, B: Canon> Canon for Misc<A, B> {
    fn canon(&self, out: &mut Vec<u8>) {
        self.a.canon(out);
        self.bs.canon(out);
        self.b.canon(out);
        self.st.canon(out);
        self.c.canon(out);
        self.f.canon(out);
        self.nz.canon(out);
        self.r.canon(out);
        self.bd.canon(out);
        self.cf.canon(out);
        self.arr.canon(out);
        self.last.canon(out);
    }
    fn parts(&self, out: &mut Vec<Part>) {
        self.a.parts(out);
        self.b.parts(out);
    }
}

// ---------------------------------------------------------------------------------------
// loaded-structure objects (type-erased so that the schedule can move them between actors)

#[derive(Clone, Copy, Debug, PartialEq, Eq, serde::Serialize, serde::Deserialize, Hash, PartialOrd, Ord)]
pub enum Loader {
    Full,
    Mem,
    LoadMmap,
    Mmap,
}
impl Loader {
    pub fn name(self) -> &'static str {
        match self {
            Loader::Full => "load_full",
            Loader::Mem => "load_mem",
            Loader::LoadMmap => "load_mmap",
            Loader::Mmap => "mmap",
        }
    }
    #[cfg(feature = "mmap")]
    pub const AVAILABLE: &'static [Loader] = &[Loader::Full, Loader::Mem, Loader::LoadMmap, Loader::Mmap];
    #[cfg(not(feature = "mmap"))]
    pub const AVAILABLE: &'static [Loader] = &[Loader::Full, Loader::Mem];
}

#[derive(Clone, Copy, Debug, PartialEq, Eq)]
pub enum BackKind {
    /// fully deserialized value, no backing region
    Owned,
    Heap,
    Map,
}
#[derive(Clone, Copy, Debug)]
pub struct Backing {
    pub kind: BackKind,
    pub addr: usize,
    pub len: usize,
}

pub trait CaseObj: Send + Sync {
    fn canon(&self, out: &mut Vec<u8>);
    fn parts(&self, out: &mut Vec<Part>);
    fn backing(&self) -> Backing;
    /// Move the case (not its backing memory) to a fresh heap location; the old one is freed (and
    /// poisoned by the tracker).
    fn relocate(self: Box<Self>) -> Box<dyn CaseObj>;
    /// Address of the case object itself (to show that it really moved).
    fn self_addr(&self) -> usize;
    /// Copy a `'static` borrowed slice out of the case through Deref in safe code, if this document
    /// offers one (escape client for C09): (address, byte length, via).
    fn escape(&self) -> Option<(usize, usize, &'static str)> {
        None
    }
    /// For structures whose Drop records (mark, checksum): what the drop of *this loaded structure*
    /// must record (computed from the structure as loaded, not from what was stored).
    fn drop_probe(&self) -> Option<(u64, u64)> {
        None
    }
}

pub struct FullObj<D: Doc>(pub D);
impl<D: Doc + Send + Sync> CaseObj for FullObj<D> {
    fn drop_probe(&self) -> Option<(u64, u64)> {
        Doc::drop_probe(&self.0)
    }
    fn canon(&self, out: &mut Vec<u8>) {
        self.0.canon(out)
    }
    fn parts(&self, _out: &mut Vec<Part>) {}
    fn backing(&self) -> Backing {
        Backing { kind: BackKind::Owned, addr: 0, len: 0 }
    }
    fn relocate(self: Box<Self>) -> Box<dyn CaseObj> {
        let v = *self;
        Box::new(v)
    }
    fn self_addr(&self) -> usize {
        self as *const Self as usize
    }
}

pub struct EpsObj<D: DeserializeInner + 'static>(pub MemCase<DeserType<'static, D>>);

pub fn backing_of<S>(c: &MemCase<S>) -> Backing {
    use epserde::deser::MemBackend;
    let b: &MemBackend = c.verif_backend();
    let kind = match b {
        MemBackend::None => BackKind::Owned,
        MemBackend::Memory(_) => BackKind::Heap,
        #[cfg(feature = "mmap")]
        MemBackend::Mmap(_) => BackKind::Map,
    };
    match b.as_ref() {
        Some(s) => Backing { kind, addr: s.as_ptr() as usize, len: s.len() },
        None => Backing { kind, addr: 0, len: 0 },
    }
}

pub type LoadResult = Result<Box<dyn CaseObj>, anyhow::Error>;

pub trait Doc: Serialize + Deserialize + Canon + Gen + Send + Sync + 'static {
    const NAME: &'static str;
    fn canon_eps(d: &DeserType<'_, Self>, out: &mut Vec<u8>);
    fn parts_eps(d: &DeserType<'_, Self>, out: &mut Vec<Part>);
    /// Load `path` as `Self` with the given loader (flags = epserde Flags bits).
    fn load(loader: Loader, path: &Path, flags: u32) -> LoadResult;
    /// For sum-type documents: one value per top-level variant.
    fn variants(_r: &mut Rng, _size: usize) -> Vec<Self> {
        Vec::new()
    }
    /// For documents whose Drop records (tag, checksum): what a drop of this value must record.
    fn drop_probe(&self) -> Option<(u64, u64)> {
        None
    }
    /// For documents with a free-length tail (`Padded<..>`): adjust the value so that its stream length
    /// is ≡ `delta` (mod `modulus`) and at least `modulus + delta`. Default: not adjustable.
    fn fit_len(&mut self, _modulus: usize, _delta: isize) -> bool {
        false
    }
}

macro_rules! doc_impl {
    ($name:ident, $t:ty $(, variants = $vf:expr)? $(, escape = $ef:expr)? $(, probe = $pf:expr, epsprobe = $epf:expr)? $(, fit = $ff:expr)?) => {
        impl CaseObj for EpsObj<$t> {
            fn canon(&self, out: &mut Vec<u8>) {
                let d: &DeserType<'static, $t> = &self.0;
                d.canon(out)
            }
            fn parts(&self, out: &mut Vec<Part>) {
                let d: &DeserType<'static, $t> = &self.0;
                d.parts(out)
            }
            fn backing(&self) -> Backing {
                backing_of(&self.0)
            }
            fn relocate(self: Box<Self>) -> Box<dyn CaseObj> {
                let v = *self;
                Box::new(v)
            }
            fn self_addr(&self) -> usize {
                self as *const Self as usize
            }
            $(fn escape(&self) -> Option<(usize, usize, &'static str)> {
                let f: fn(&MemCase<DeserType<'static, $t>>) -> Option<(usize, usize, &'static str)> = $ef;
                f(&self.0)
            })?
            $(fn drop_probe(&self) -> Option<(u64, u64)> {
                let f: fn(&DeserType<'static, $t>) -> Option<(u64, u64)> = $epf;
                f(&self.0)
            })?
        }
        impl Doc for $t {
            const NAME: &'static str = stringify!($name);
            fn canon_eps(d: &DeserType<'_, Self>, out: &mut Vec<u8>) {
                d.canon(out)
            }
            fn parts_eps(d: &DeserType<'_, Self>, out: &mut Vec<Part>) {
                d.parts(out)
            }
            fn load(loader: Loader, path: &Path, flags: u32) -> LoadResult {
                let _ = flags;
                match loader {
                    Loader::Full => <$t>::load_full(path).map(|v| Box::new(FullObj(v)) as Box<dyn CaseObj>),
                    Loader::Mem => <$t>::load_mem(path).map(|c| Box::new(EpsObj::<$t>(c)) as Box<dyn CaseObj>),
                    #[cfg(feature = "mmap")]
                    Loader::LoadMmap => <$t>::load_mmap(path, epserde::deser::Flags::from_bits_truncate(flags)).map(|c| Box::new(EpsObj::<$t>(c)) as Box<dyn CaseObj>),
                    #[cfg(feature = "mmap")]
                    Loader::Mmap => <$t>::mmap(path, epserde::deser::Flags::from_bits_truncate(flags)).map(|c| Box::new(EpsObj::<$t>(c)) as Box<dyn CaseObj>),
                    #[cfg(not(feature = "mmap"))]
                    _ => Err(anyhow::anyhow!("loader not available in this build")),
                }
            }
            $(fn variants(r: &mut Rng, size: usize) -> Vec<Self> {
                let f: fn(&mut Rng, usize) -> Vec<Self> = $vf;
                f(r, size)
            })?
            $(fn drop_probe(&self) -> Option<(u64, u64)> {
                let f: fn(&Self) -> Option<(u64, u64)> = $pf;
                f(self)
            })?
            $(fn fit_len(&mut self, modulus: usize, delta: isize) -> bool {
                let f: fn(&mut Self, usize, isize) -> bool = $ff;
                f(self, modulus, delta)
            })?
        }
    };
}

/// Visitor over a statically typed document.
pub trait DocFn {
    type Out;
    fn call<D: Doc>(self) -> Self::Out;
}

macro_rules! registry {
    ($( $name:ident : $t:ty $({ $($extra:tt)* })? ; )*) => {
        $( doc_impl!($name, $t $(, $($extra)*)?); )*
        pub const ALL_DOCS: &[&str] = &[ $( stringify!($name), )* ];
        pub fn dispatch<F: DocFn>(name: &str, f: F) -> Option<F::Out> {
            match name {
                $( stringify!($name) => Some(f.call::<$t>()), )*
                _ => None,
            }
        }
    };
}

/// Documents whose alignment unit exceeds `MemoryAlignment` (64): the heap loaders refuse or cannot align
/// them (documented), so only the placement check (C12) enumerates them.
pub const OVERALIGNED_DOCS: &[&str] = &["Z128D", "VecZ128", "OptVecZ128", "IncrE"];

fn slice_escape_deref<T: 'static>(s: &'static [T]) -> Option<(usize, usize, &'static str)> {
    Some((s.as_ptr() as usize, std::mem::size_of_val(s), "deref-copy"))
}

registry! {
    U8: u8;
    U64: u64;
    U128: u128;
    F64: f64;
    Bool: bool;
    Char: char;
    NzU16: NonZeroU16;
    Unit: ();
    Str: String;
    BoxStr: Box<str>;
    VecU8: Vec<u8>;
    VecU16: Vec<u16>;
    VecU64: Vec<u64> { escape = |c| { let r: &'static [u64] = **c; slice_escape_deref(r) } };
    VecU128: Vec<u128>;
    VecF32: Vec<f32>;
    VecPair: Vec<(u32, u32)>;
    VecZeroS: Vec<ZeroS>;
    VecZeroP: Vec<ZeroP>;
    VecZ32: Vec<Z32>;
    VecZ64: Vec<Z64>;
    VecRangeTo: Vec<RangeTo<u32>>;
    VecString: Vec<String>;
    VecVecU32: Vec<Vec<u32>>;
    VecOptU64: Vec<Option<u64>>;
    BoxU32: Box<[u32]> { escape = |c| { let r: &'static [u32] = *AsRef::<&'static [u32]>::as_ref(c); slice_escape_deref(r).map(|(a, l, _)| (a, l, "asref-copy")) } };
    BoxString: Box<[String]>;
    // containers whose ε-copy *items* own heap memory (a container that loses track of the items it has
    // already built on an error path leaks them)
    BoxVecString: Box<[Vec<String>]>;
    VecVecString: Vec<Vec<String>>;
    OptVecString: Option<Vec<String>> { variants = |r, s| vec![None, Some(Vec::gen(r, s))] };
    BoundVecString: Bound<Vec<String>> { variants = |r, s| vec![Bound::Unbounded, Bound::Included(Vec::gen(r, s)), Bound::Excluded(Vec::gen(r, s))] };
    CfVecStr: ControlFlow<Vec<String>, Box<[String]>> { variants = |r, s| vec![ControlFlow::Break(Vec::gen(r, s)), ControlFlow::Continue(<Box<[String]>>::gen(r, s))] };
    EnumDVecStr: EnumD<Vec<String>> { variants = |r, s| (0..3).map(|v| EnumD::variant(v, r, s)).collect() };
    ArrU64x4: [u64; 4];
    ArrU8x3: [u8; 3];
    ArrArr: [[u16; 2]; 3];
    ArrString: [String; 2];
    ArrVecU8: [Vec<u8>; 2];
    ArrVecString: [Vec<String>; 2];
    ArrOptVec: [Option<Vec<u16>>; 3];
    T1: (u32,);
    T2: (u64, u64);
    T3: (u16, u16, u16);
    OptU32: Option<u32> { variants = |r, s| vec![None, Some(u32::gen(r, s))] };
    OptVecU64: Option<Vec<u64>> { variants = |r, s| vec![None, Some(Vec::gen(r, s))] };
    OptOptString: Option<Option<String>> { variants = |r, s| vec![None, Some(None), Some(Some(String::gen(r, s)))] };
    RangeU32: Range<u32>;
    RangeInclI64: RangeInclusive<i64>;
    RangeFromU8: RangeFrom<u8>;
    RangeToU16: RangeTo<u16>;
    RangeToInclU64: RangeToInclusive<u64>;
    RangeFullD: RangeFull;
    BoundU64: Bound<u64> { variants = |r, s| vec![Bound::Unbounded, Bound::Included(u64::gen(r, s)), Bound::Excluded(u64::gen(r, s))] };
    BoundString: Bound<String> { variants = |r, s| vec![Bound::Unbounded, Bound::Included(String::gen(r, s)), Bound::Excluded(String::gen(r, s))] };
    CfU32U64: ControlFlow<u32, u64> { variants = |r, s| vec![ControlFlow::Break(u32::gen(r, s)), ControlFlow::Continue(u64::gen(r, s))] };
    CfStrVec: ControlFlow<String, Vec<u8>> { variants = |r, s| vec![ControlFlow::Break(String::gen(r, s)), ControlFlow::Continue(Vec::gen(r, s))] };
    // sum types whose payload needs alignment padding right after the tag
    CfVec: ControlFlow<Vec<u64>, Vec<u32>> { variants = |r, s| vec![ControlFlow::Break(Vec::gen(r, s + 1)), ControlFlow::Continue(Vec::gen(r, s + 1))] };
    BoundVecU16: Bound<Vec<u16>> { variants = |r, s| vec![Bound::Unbounded, Bound::Included(Vec::gen(r, s + 1)), Bound::Excluded(Vec::gen(r, s + 1))] };
    ZeroSD: ZeroS;
    ZeroPD: ZeroP;
    Z32D: Z32;
    Z64D: Z64;
    EnumZD: EnumZ;
    DeepA: DeepS<Vec<u64>, Vec<String>> { escape = |c| { let r: &'static [u64] = c.a; slice_escape_deref(r).map(|(a, l, _)| (a, l, "field-copy")) } };
    DeepB: DeepS<Vec<ZeroP>, Option<Vec<u16>>>;
    DeepC: DeepS<EnumD<Vec<u8>>, Bound<String>>;
    DeepD: DeepS<Vec<u16>, Vec<u128>>;
    IncrA: Incr<Vec<u16>, Vec<u32>, Vec<u64>, Vec<Z32>>;
    IncrB: Incr<Vec<u8>, Vec<u16>, Option<Vec<u128>>, Vec<u64>>;
    IncrC: Incr<String, Vec<(u16, u16)>, Vec<ZeroP>, Vec<u128>>;
    IncrD: Incr<Vec<u8>, Vec<Z32>, Vec<Z64>, Vec<u16>>;
    MiscA: Misc<ZeroP, [u64; 4]>;
    MiscB: Misc<(u64, u64), Box<[u32]>>;
    MiscC: Misc<Z32, Option<ZeroS>>;
    MiscD: Misc<Vec<String>, EnumZ>;
    VecTupleS: Vec<TupleS<Vec<u8>>>;
    OptDeep: Option<DeepS<Vec<u8>, String>> { variants = |r, s| vec![None, Some(DeepS::gen(r, s))] };
    ArrDeep: [TupleS<String>; 2];
    BoxDeep: Box<[TupleS<Vec<u32>>]>;
    HolderD: Holder<Z32>;
    HolderE: Holder<Z64>;
    HolderA: Holder<Vec<u8>>;
    HolderB: Holder<Vec<u64>>;
    HolderC: Holder<String>;
    TupleSD: TupleS<Vec<u64>>;
    EnumDVec: EnumD<Vec<u32>> { variants = |r, s| (0..3).map(|v| EnumD::variant(v, r, s)).collect() };
    EnumDStr: EnumD<String> { variants = |r, s| (0..3).map(|v| EnumD::variant(v, r, s)).collect() };
    E1D: E1 { variants = |_r, _s| vec![E1::Only] };
    E2D: E2 { variants = |r, _s| vec![E2::A, E2::B(u8::gen(r, 0))] };
    E9D: E9 { variants = |r, s| (0..9).map(|v| E9::variant(v, r, s)).collect() };
    VecE9: Vec<E9>;
    PersonD: Person;
    ConstGen3: ConstGen<3>;
    PhantomD: Phantom<u32>;
    PaddedVecU64: Padded<Vec<u64>> { fit = |v, m, d| fit_padded(v, m, d) };
    PaddedZ32: Padded<Vec<Z32>> { fit = |v, m, d| fit_padded(v, m, d) };
    PaddedStr: Padded<String> { fit = |v, m, d| fit_padded(v, m, d) };
    // over-aligned (unit 128 > MemoryAlignment): placement check only (`OVERALIGNED_DOCS`)
    Z128D: Z128;
    VecZ128: Vec<Z128>;
    OptVecZ128: Option<Vec<Z128>> { variants = |r, s| vec![None, Some(Vec::gen(r, s))] };
    IncrE: Incr<Vec<u8>, Vec<Z128>, Vec<u16>, Vec<Z64>>;
    DropProbeD: DropProbe<Vec<u64>> { probe = |v| Some((v.mark, probe_sum(&v.data))), epsprobe = |v| Some((v.mark, probe_sum(v.data))) };
}

