//! Canonical rendering of logical values, implemented once for a type and for its ε-copy form
//! (`Vec<T>` / `&[T]`, `String` / `&str`, `Z` / `&Z`, derived structs over any `Canon` parameters),
//! floats by bit pattern: "equal" never depends on `PartialEq` across types nor on padding bytes.
//! `parts` lists every borrowed part (address, byte length, element alignment) of an ε-copy form.

use std::ops::{Bound, ControlFlow, Range, RangeFrom, RangeFull, RangeInclusive, RangeTo, RangeToInclusive};

#[derive(Clone, Copy, Debug, PartialEq, Eq)]
pub struct Part {
    pub addr: usize,
    pub len: usize,
    pub align: usize,
}

pub trait Canon {
    fn canon(&self, out: &mut Vec<u8>);
    fn parts(&self, _out: &mut Vec<Part>) {}
}

pub fn canon_of<T: Canon + ?Sized>(v: &T) -> Vec<u8> {
    let mut out = Vec::new();
    v.canon(&mut out);
    out
}

macro_rules! canon_int {
    ($($t:ty),*) => {$(
        impl Canon for $t {
            #[inline]
            fn canon(&self, out: &mut Vec<u8>) { out.extend_from_slice(&self.to_le_bytes()); }
        }
    )*};
}
canon_int!(u8, u16, u32, u64, u128, usize, i8, i16, i32, i64, i128, isize);

macro_rules! canon_nonzero {
    ($($t:ty),*) => {$(
        impl Canon for $t {
            #[inline]
            fn canon(&self, out: &mut Vec<u8>) { out.extend_from_slice(&self.get().to_le_bytes()); }
        }
    )*};
}
canon_nonzero!(
    std::num::NonZeroU8, std::num::NonZeroU16, std::num::NonZeroU32, std::num::NonZeroU64, std::num::NonZeroU128, std::num::NonZeroUsize,
    std::num::NonZeroI8, std::num::NonZeroI16, std::num::NonZeroI32, std::num::NonZeroI64, std::num::NonZeroI128, std::num::NonZeroIsize
);

impl Canon for f32 {
    fn canon(&self, out: &mut Vec<u8>) {
        out.extend_from_slice(&self.to_bits().to_le_bytes());
    }
}
impl Canon for f64 {
    fn canon(&self, out: &mut Vec<u8>) {
        out.extend_from_slice(&self.to_bits().to_le_bytes());
    }
}
impl Canon for bool {
    fn canon(&self, out: &mut Vec<u8>) {
        out.push(*self as u8);
    }
}
impl Canon for char {
    fn canon(&self, out: &mut Vec<u8>) {
        out.extend_from_slice(&(*self as u32).to_le_bytes());
    }
}
impl Canon for () {
    fn canon(&self, out: &mut Vec<u8>) {
        out.push(b'u');
    }
}
impl<T: ?Sized> Canon for std::marker::PhantomData<T> {
    fn canon(&self, out: &mut Vec<u8>) {
        out.push(b'p');
    }
}

/// A reference is transparent for the value and is one borrowed part.
impl<T: Canon + ?Sized> Canon for &T {
    #[inline]
    fn canon(&self, out: &mut Vec<u8>) {
        (**self).canon(out)
    }
    fn parts(&self, out: &mut Vec<Part>) {
        out.push(Part { addr: *self as *const T as *const u8 as usize, len: std::mem::size_of_val::<T>(*self), align: std::mem::align_of_val::<T>(*self) });
    }
}

impl<T: Canon> Canon for [T] {
    fn canon(&self, out: &mut Vec<u8>) {
        out.push(b'L');
        out.extend_from_slice(&(self.len() as u64).to_le_bytes());
        for x in self {
            x.canon(out);
        }
    }
    fn parts(&self, out: &mut Vec<Part>) {
        for x in self {
            x.parts(out);
        }
    }
}
impl<T: Canon> Canon for Vec<T> {
    fn canon(&self, out: &mut Vec<u8>) {
        self.as_slice().canon(out)
    }
    fn parts(&self, out: &mut Vec<Part>) {
        self.as_slice().parts(out)
    }
}
impl<T: Canon> Canon for Box<[T]> {
    fn canon(&self, out: &mut Vec<u8>) {
        (**self).canon(out)
    }
    fn parts(&self, out: &mut Vec<Part>) {
        (**self).parts(out)
    }
}
impl<T: Canon, const N: usize> Canon for [T; N] {
    fn canon(&self, out: &mut Vec<u8>) {
        // fixed length: no length prefix, so that [T; N] and &[T; N] render alike and differ from Vec
        out.push(b'A');
        for x in self {
            x.canon(out);
        }
    }
    fn parts(&self, out: &mut Vec<Part>) {
        for x in self {
            x.parts(out);
        }
    }
}
impl Canon for str {
    fn canon(&self, out: &mut Vec<u8>) {
        out.push(b'S');
        out.extend_from_slice(&(self.len() as u64).to_le_bytes());
        out.extend_from_slice(self.as_bytes());
    }
}
impl Canon for String {
    fn canon(&self, out: &mut Vec<u8>) {
        self.as_str().canon(out)
    }
}
impl Canon for Box<str> {
    fn canon(&self, out: &mut Vec<u8>) {
        (**self).canon(out)
    }
}

impl<T: Canon> Canon for Option<T> {
    fn canon(&self, out: &mut Vec<u8>) {
        match self {
            None => out.push(b'N'),
            Some(x) => {
                out.push(b'J');
                x.canon(out)
            }
        }
    }
    fn parts(&self, out: &mut Vec<Part>) {
        if let Some(x) = self {
            x.parts(out)
        }
    }
}
impl<T: Canon> Canon for Bound<T> {
    fn canon(&self, out: &mut Vec<u8>) {
        match self {
            Bound::Unbounded => out.push(b'U'),
            Bound::Included(x) => {
                out.push(b'I');
                x.canon(out)
            }
            Bound::Excluded(x) => {
                out.push(b'E');
                x.canon(out)
            }
        }
    }
    fn parts(&self, out: &mut Vec<Part>) {
        match self {
            Bound::Unbounded => {}
            Bound::Included(x) | Bound::Excluded(x) => x.parts(out),
        }
    }
}
impl<B: Canon, C: Canon> Canon for ControlFlow<B, C> {
    fn canon(&self, out: &mut Vec<u8>) {
        match self {
            ControlFlow::Break(x) => {
                out.push(b'B');
                x.canon(out)
            }
            ControlFlow::Continue(x) => {
                out.push(b'C');
                x.canon(out)
            }
        }
    }
    fn parts(&self, out: &mut Vec<Part>) {
        match self {
            ControlFlow::Break(x) => x.parts(out),
            ControlFlow::Continue(x) => x.parts(out),
        }
    }
}
impl<T: Canon> Canon for Range<T> {
    fn canon(&self, out: &mut Vec<u8>) {
        out.push(b'r');
        self.start.canon(out);
        self.end.canon(out);
    }
}
impl<T: Canon> Canon for RangeInclusive<T> {
    fn canon(&self, out: &mut Vec<u8>) {
        out.push(b'i');
        self.start().canon(out);
        self.end().canon(out);
    }
}
impl<T: Canon> Canon for RangeFrom<T> {
    fn canon(&self, out: &mut Vec<u8>) {
        out.push(b'f');
        self.start.canon(out);
    }
}
impl<T: Canon> Canon for RangeTo<T> {
    fn canon(&self, out: &mut Vec<u8>) {
        out.push(b't');
        self.end.canon(out);
    }
}
impl<T: Canon> Canon for RangeToInclusive<T> {
    fn canon(&self, out: &mut Vec<u8>) {
        out.push(b'T');
        self.end.canon(out);
    }
}
impl Canon for RangeFull {
    fn canon(&self, out: &mut Vec<u8>) {
        out.push(b'F');
    }
}
impl<T: Canon> Canon for (T,) {
    fn canon(&self, out: &mut Vec<u8>) {
        out.push(b'(');
        self.0.canon(out);
    }
}
impl<T: Canon> Canon for (T, T) {
    fn canon(&self, out: &mut Vec<u8>) {
        out.push(b'(');
        self.0.canon(out);
        self.1.canon(out);
    }
}
impl<T: Canon> Canon for (T, T, T) {
    fn canon(&self, out: &mut Vec<u8>) {
        out.push(b'(');
        self.0.canon(out);
        self.1.canon(out);
        self.2.canon(out);
    }
}
