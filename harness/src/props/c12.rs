//! C12 — misplaced buffers are refused with an alignment error, never misread.
//!
//! For every base-address residue r∈0..128 of every (document, value): ε-copy deserialization of
//! the stream placed at base+r succeeds exactly when every zero-copy block recorded by the writer
//! lands on a multiple of its unit; every borrowed part of an Ok result is aligned for its element
//! type and lies inside the placed stream.

use super::common::*;
use crate::canon::Part;
use crate::ctx::{catch, Ctx, Tier, Violation};
use crate::docs::{self, Doc, DocFn, ALL_DOCS};
use crate::rng::Fnv;
use epserde::deser::Deserialize;

pub const ID: &str = "C12";
const RESIDUES: usize = 128;

#[derive(Clone, Debug, serde::Serialize, serde::Deserialize)]
pub struct Case {
    pub doc: String,
    pub vi: u64,
    pub residue: usize,
}

fn exec<D: Doc>(p: &PrepDoc<D>, residue: usize) -> Result<(u64, &'static str, usize), Violation> {
    crate::ctx::scrub_stack();
    let blocks = blocks_of(&p.schema);
    let what = format!("deserialize_eps::<{}> of a {}-byte stream placed at an address ≡ {} (mod 128)", D::NAME, p.b.len(), residue);
    with_arena(|a| {
        let base = a.base_addr();
        let s = a.place(&p.b, residue);
        let start = s.as_ptr() as usize;
        debug_assert_eq!(start, base + residue);
        let misaligned: Vec<&(usize, usize, usize)> = blocks.iter().filter(|(off, _, unit)| *unit > 1 && (start + off) % unit != 0).collect();
        let expect_ok = misaligned.is_empty();
        let r = catch(|| {
            D::deserialize_eps(s).map(|v| {
                let mut c = Vec::new();
                D::canon_eps(&v, &mut c);
                let mut parts: Vec<Part> = Vec::new();
                D::parts_eps(&v, &mut parts);
                (c, parts)
            })
        });
        match r {
            Err(pm) => Err(Violation::new("C12/panic", format!("{}: panicked ({})", what, pm))),
            Ok(Ok((c, parts))) => {
                if !expect_ok {
                    let (off, _, unit) = misaligned[0];
                    return Err(Violation::new("C12/misaligned-accepted", format!("{}: succeeded although the block at offset {} (unit {}) is misaligned", what, off, unit)));
                }
                // "never misread": the value must not depend on the placement (reference = the same read at a
                // page-aligned address, when that read succeeds)
                if let Some(reference) = &p.canon_eps {
                    if c != *reference {
                        return Err(Violation::new("C12/value-differs", format!("{}: the value differs from the one read at a page-aligned address", what)));
                    }
                }
                for pt in &parts {
                    if pt.align > 1 && pt.addr % pt.align != 0 {
                        return Err(Violation::new("C12/misaligned-reference", format!("{}: a returned reference to {} bytes is not aligned to {}", what, pt.len, pt.align)));
                    }
                    if pt.len > 0 && !(pt.addr >= start && pt.addr + pt.len <= start + p.b.len()) {
                        return Err(Violation::new("C12/reference-outside-buffer", format!("{}: a returned reference of {} bytes lies outside the buffer", what, pt.len)));
                    }
                }
                Ok((Fnv::new().str("ok").u64(parts.len() as u64).get(), "ok", parts.len()))
            }
            Ok(Err(e)) => {
                let name = deser_err_name(&e);
                if expect_ok {
                    return Err(Violation::new("C12/spurious-refusal", format!("{}: every block is aligned but the result is {}", what, name)));
                }
                if name != "AlignmentError" {
                    return Err(Violation::new("C12/wrong-error", format!("{}: expected AlignmentError, got {}", what, name)));
                }
                Ok((Fnv::new().str("refused").get(), "refused", 0))
            }
        }
    })
}

pub fn n_units(tier: Tier) -> u64 {
    placement_docs().len() as u64 * values_per_doc(tier, 40, 40000)
}

struct RunUnit<'a> {
    ctx: &'a mut Ctx,
    unit: u64,
    vi: u64,
}
impl DocFn for RunUnit<'_> {
    type Out = ();
    fn call<D: Doc>(self) {
        let RunUnit { ctx, unit, vi } = self;
        ctx.begin(unit, u64::MAX);
        let Some(p) = prep_doc_need::<D>(ctx.seed, ID, vi, ctx.tier, Need::StreamEps) else {
            ctx.count("control_failures");
            return;
        };
        ctx.docs_seen.insert(D::NAME.to_string());
        let canon_digest = Fnv::new().bytes(&p.b).get();
        let blocks = blocks_of(&p.schema);
        let maxu = blocks.iter().map(|b| b.2).max().unwrap_or(1);
        let has_empty_block = blocks.iter().any(|b| b.1 == 0 && b.2 > 1);
        let mut oks = 0;
        for residue in 0..RESIDUES {
            let sub = residue as u64;
            ctx.begin(unit, sub);
            match exec(&p, residue) {
                Ok((digest, outcome, nparts)) => {
                    ctx.logical_steps += 1;
                    ctx.count(&format!("outcome.{}", outcome));
                    if outcome == "refused" {
                        ctx.count("fault.misplaced_buffer_refused");
                        if has_empty_block {
                            ctx.count("probe.stream_with_empty_aligned_block_refused");
                        }
                    } else {
                        oks += 1;
                        if residue % 16 != 0 {
                            ctx.count("fault.oddly_placed_buffer_accepted");
                        }
                        ctx.add("parts_checked", nparts as u64);
                    }
                    // non-trivial: a placement that is not 16-aligned (no test uses one)
                    let nt = if residue % 16 != 0 { Some(Fnv::new().str(D::NAME).u64(canon_digest).u64(residue as u64).get()) } else { None };
                    ctx.done(unit, sub, digest, nt);
                    if residue == 37 && vi % 5 == 2 {
                        ctx.sample(|| serde_json::json!({"case": Case { doc: D::NAME.into(), vi, residue }, "blocks(offset,size,unit)": blocks, "outcome": outcome}));
                    }
                }
                Err(v) => {
                    ctx.done(unit, sub, Fnv::new().str(&v.class).get(), None);
                    ctx.violation(v, unit, sub, || serde_json::to_value(&Case { doc: D::NAME.into(), vi, residue }).unwrap());
                }
            }
        }
        ctx.count(&format!("max_unit.{}", maxu));
        if maxu == 1 && oks == RESIDUES {
            ctx.count("probe.byte_aligned_stream_ok_everywhere");
        }
    }
}

pub fn run_unit(ctx: &mut Ctx, unit: u64) {
    let (doc, vi) = unit_doc_placement(unit);
    docs::dispatch(doc, RunUnit { ctx, unit, vi });
}

pub fn case_at(_ctx: &mut Ctx, unit: u64, sub: u64) -> Option<serde_json::Value> {
    let (doc, vi) = unit_doc_placement(unit);
    Some(serde_json::to_value(&Case { doc: doc.into(), vi, residue: sub as usize }).unwrap())
}

struct Replay<'a> {
    case: &'a Case,
    seed: u64,
    tier: Tier,
}
impl DocFn for Replay<'_> {
    type Out = Result<Option<Violation>, String>;
    fn call<D: Doc>(self) -> Self::Out {
        let Some(p) = prep_doc_need::<D>(self.seed, ID, self.case.vi, self.tier, Need::StreamEps) else { return Err("the fault-free control run of this value fails".into()) };
        Ok(exec(&p, self.case.residue % 4096).err())
    }
}
pub fn replay(case: &serde_json::Value, ctx: &mut Ctx) -> Result<Option<Violation>, String> {
    let c: Case = serde_json::from_value(case.clone()).map_err(|e| e.to_string())?;
    docs::dispatch(&c.doc, Replay { case: &c, seed: ctx.seed, tier: ctx.tier }).unwrap_or(Err("unknown document".into()))
}

pub fn shrink(case: &serde_json::Value) -> Vec<serde_json::Value> {
    let Ok(c) = serde_json::from_value::<Case>(case.clone()) else { return vec![] };
    let mut out: Vec<Case> = Vec::new();
    for vi in 0..c.vi.min(3) {
        out.push(Case { vi, ..c.clone() });
    }
    if c.residue > 0 {
        out.push(Case { residue: c.residue / 2, ..c.clone() });
        out.push(Case { residue: c.residue - 1, ..c.clone() });
    }
    out.into_iter().map(|d| serde_json::to_value(&d).unwrap()).collect()
}
