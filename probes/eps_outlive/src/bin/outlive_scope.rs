//! Must NOT compile: the buffer goes out of scope while the ε-copy result is still used.
use epserde::prelude::*;

fn main() {
    let r;
    {
        let buf: Vec<u8> = vec![0; 128];
        r = <Vec<String>>::deserialize_eps(&buf).unwrap();
    }
    println!("{}", r.len());
}
