//! C10 — any corruption of the header's checked fields yields the specific error.
//!
//! Per (document, value): every single-bit flip of the 29 fixed header bytes, the byte-reversed
//! cookie, minor versions (all 65536 for three documents, boundary classes for the rest), through
//! deserialize_full, deserialize_eps and (sampled) the file loaders.

use super::common::*;
use crate::ctx::{catch, Ctx, Tier, Violation};
use crate::docs::{self, Doc, DocFn, Loader, ALL_DOCS};
use crate::rng::{mix, Fnv, Rng};
use crate::sys;
use epserde::deser::{self, Deserialize};

pub const ID: &str = "C10";

#[derive(Clone, Copy, Debug, PartialEq, Eq, serde::Serialize, serde::Deserialize)]
pub enum Mutation {
    /// flip bit `bit` (0..8) of header byte `byte` (0..29)
    Flip { byte: usize, bit: u8 },
    ReversedCookie,
    Minor(u16),
}
#[derive(Clone, Copy, Debug, PartialEq, Eq, serde::Serialize, serde::Deserialize)]
pub enum Via {
    Full,
    Eps,
    File(Loader, u32),
}
#[derive(Clone, Debug, serde::Serialize, serde::Deserialize)]
pub struct Case {
    pub doc: String,
    pub vi: u64,
    pub mutation: Mutation,
    pub via: Via,
}

#[derive(Debug, PartialEq, Eq)]
enum Expect {
    /// the value must be the same as without the mutation
    SameValue,
    Err(String),
}

fn expected(b: &[u8], m: Mutation) -> (Vec<u8>, Expect, &'static str) {
    let mut c = b.to_vec();
    let u64_at = |c: &[u8], o: usize| u64::from_ne_bytes(c[o..o + 8].try_into().unwrap());
    let u16_at = |c: &[u8], o: usize| u16::from_ne_bytes(c[o..o + 2].try_into().unwrap());
    match m {
        Mutation::ReversedCookie => {
            c[0..8].reverse();
            (c, Expect::Err("EndiannessError".into()), "reversed_cookie")
        }
        Mutation::Minor(v) => {
            c[10..12].copy_from_slice(&v.to_ne_bytes());
            let orig = u16_at(b, 10);
            if v <= orig {
                (c, Expect::SameValue, "minor_lower_or_equal")
            } else {
                (c, Expect::Err(format!("MinorVersionMismatch({})", v)), "minor_higher")
            }
        }
        Mutation::Flip { byte, bit } => {
            c[byte] ^= 1 << bit;
            match byte {
                0..=7 => {
                    let e = format!("MagicCookieError({:#x})", u64_at(&c, 0));
                    (c, Expect::Err(e), "magic")
                }
                8..=9 => {
                    let e = format!("MajorVersionMismatch({})", u16_at(&c, 8));
                    (c, Expect::Err(e), "major")
                }
                10..=11 => {
                    let v = u16_at(&c, 10);
                    if v <= u16_at(b, 10) {
                        (c, Expect::SameValue, "minor_lower_or_equal")
                    } else {
                        (c, Expect::Err(format!("MinorVersionMismatch({})", v)), "minor_higher")
                    }
                }
                12 => {
                    let e = format!("UsizeSizeMismatch({})", c[12]);
                    (c, Expect::Err(e), "pointer_width")
                }
                13..=20 => {
                    let e = format!("WrongTypeHash(ser={:#x},self={:#x})", u64_at(&c, 13), u64_at(b, 13));
                    (c, Expect::Err(e), "type_hash")
                }
                _ => {
                    let e = format!("WrongAlignHash(ser={:#x},self={:#x})", u64_at(&c, 21), u64_at(b, 21));
                    (c, Expect::Err(e), "align_hash")
                }
            }
        }
    }
}

fn exec<D: Doc>(p: &PrepDoc<D>, m: Mutation, via: Via, scratch: &std::path::Path) -> Result<(u64, &'static str), Violation> {
    crate::ctx::scrub_stack();
    if let Mutation::Flip { byte, bit } = m {
        if byte >= 29 || bit >= 8 {
            return Ok((0, "out-of-range"));
        }
    }
    let (bytes, want, field) = expected(&p.b, m);
    let what = format!("{:?} of a {} stream via {:?}", m, D::NAME, via);
    // the reference of "accepted with the same value" is the fault-free read through the same kind of path
    let reference: Option<&Vec<u8>> = match via {
        Via::Full | Via::File(Loader::Full, _) => p.canon_full.as_ref(),
        _ => p.canon_eps.as_ref(),
    };
    if reference.is_none() {
        // this path cannot even read the unmodified stream: an unclaimed round-trip matter; nothing to judge
        return Ok((0, "no-reference"));
    }
    let reference = reference.unwrap();
    // Result<Result<canon, err name>, panic>
    let got: Result<Result<Vec<u8>, String>, String> = match via {
        Via::Full => catch(|| {
            D::deserialize_full(&mut std::io::Cursor::new(&bytes[..]))
                .map(|v| {
                    let mut c = Vec::new();
                    v.canon(&mut c);
                    c
                })
                .map_err(|e| deser_err_name(&e))
        }),
        Via::Eps => with_arena(|a| {
            let s = a.place(&bytes, 0);
            catch(|| {
                D::deserialize_eps(s)
                    .map(|v| {
                        let mut c = Vec::new();
                        D::canon_eps(&v, &mut c);
                        c
                    })
                    .map_err(|e| deser_err_name(&e))
            })
        }),
        Via::File(loader, flags) => {
            if !Loader::AVAILABLE.contains(&loader) || !super::world::loader_supported(loader, flags, scratch) {
                return Ok((0, "unavailable"));
            }
            let path = scratch.join("c10.bin");
            std::fs::write(&path, &bytes).map_err(|e| Violation::new("C10/harness", e.to_string()))?;
            let r = {
                let _l = sys::loader_enter(0);
                catch(|| {
                    D::load(loader, &path, flags)
                        .map(|o| {
                            let mut c = Vec::new();
                            o.canon(&mut c);
                            c
                        })
                        .map_err(|e| match e.downcast_ref::<deser::Error>() {
                            Some(de) => deser_err_name(de),
                            None => format!("non-deser error: {}", e),
                        })
                })
            };
            sys::reap_leaked(); // leak accounting of failing loads is C09's
            let _ = std::fs::remove_file(&path);
            r
        }
    };
    match (&got, &want) {
        (Err(pmsg), _) => Err(Violation::new("C10/panic", format!("{}: panicked ({})", what, pmsg))),
        (Ok(Ok(c)), Expect::SameValue) => {
            if c == reference {
                Ok((Fnv::new().str("same").get(), field))
            } else {
                Err(Violation::new("C10/value-differs", format!("{}: accepted, but the value differs from the unmodified stream's", what)))
            }
        }
        (Ok(Err(e)), Expect::SameValue) => Err(Violation::new("C10/spurious-error", format!("{}: must be accepted, got {}", what, e))),
        (Ok(Ok(_)), Expect::Err(e)) => Err(Violation::new(format!("C10/accepted-corrupt-{}", field), format!("{}: returned a value, expected {}", what, e))),
        (Ok(Err(g)), Expect::Err(e)) => {
            if g == e {
                Ok((Fnv::new().str(g).get(), field))
            } else {
                Err(Violation::new(format!("C10/wrong-error-{}", field), format!("{}: returned {}, expected {}", what, g, e)))
            }
        }
    }
}

const MINOR_CLASSES: [u16; 9] = [0, 1, 2, 3, 255, 256, 257, 32768, 65535];

fn cases(seed: u64, doc: &str, vi: u64, tier: Tier) -> Vec<(Mutation, Via)> {
    let mut r = Rng::new(mix(seed, "c10cases", fx(doc), vi));
    let mut muts: Vec<Mutation> = Vec::new();
    for byte in 0..29 {
        for bit in 0..8 {
            muts.push(Mutation::Flip { byte, bit });
        }
    }
    muts.push(Mutation::ReversedCookie);
    let all_minors = vi == 0 && matches!(doc, "U64" | "VecString" | "DeepA");
    if all_minors {
        for v in 0..=65535u16 {
            muts.push(Mutation::Minor(v));
        }
    } else {
        for v in MINOR_CLASSES {
            muts.push(Mutation::Minor(v));
        }
        if matches!(tier, Tier::Thorough) {
            for _ in 0..32 {
                muts.push(Mutation::Minor(r.next() as u16));
            }
        }
    }
    let mut out = Vec::new();
    for m in &muts {
        out.push((*m, Via::Full));
        out.push((*m, Via::Eps));
    }
    // file loaders: sampled in quick, every flip in thorough (one loader per mutation, rotating)
    let loaders = [Loader::Full, Loader::Mem, Loader::LoadMmap, Loader::Mmap];
    let nfile = match tier {
        Tier::Quick => 24,
        Tier::Thorough => 233,
    };
    for i in 0..nfile {
        let m = if matches!(tier, Tier::Thorough) { muts[i.min(232)] } else { muts[r.below(233) as usize] };
        let l = loaders[(i + vi as usize) % 4];
        out.push((m, Via::File(l, r.below(8) as u32)));
    }
    out
}

pub fn n_units(tier: Tier) -> u64 {
    n_docs() * values_per_doc(tier, 16, 1000)
}

struct RunUnit<'a> {
    ctx: &'a mut Ctx,
    unit: u64,
    vi: u64,
}
impl DocFn for RunUnit<'_> {
    type Out = ();
    fn call<D: Doc>(self) {
        let RunUnit { ctx, unit, vi } = self;
        ctx.begin(unit, u64::MAX);
        let Some(p) = prep_doc_need::<D>(ctx.seed, ID, vi, ctx.tier, Need::Stream) else {
            ctx.count("control_failures");
            return;
        };
        ctx.docs_seen.insert(D::NAME.to_string());
        let canon_digest = Fnv::new().bytes(&p.b).get();
        let cs = cases(ctx.seed, D::NAME, vi, ctx.tier);
        let scratch = ctx.scratch.clone();
        for (sub, (m, via)) in cs.iter().enumerate() {
            let sub = sub as u64;
            ctx.begin(unit, sub);
            match exec(&p, *m, *via, &scratch) {
                Ok((digest, field)) => {
                    ctx.logical_steps += 1;
                    if field == "unavailable" {
                        ctx.count("skipped.loader_not_in_build");
                        continue;
                    }
                    if field == "no-reference" {
                        ctx.count("skipped.path_has_no_fault_free_reference");
                        continue;
                    }
                    ctx.count(&format!("fault.corrupt_{}", field));
                    ctx.count(&format!("via.{}", match via { Via::Full => "deserialize_full", Via::Eps => "deserialize_eps", Via::File(l, _) => l.name() }));
                    let nt = Fnv::new().str(D::NAME).u64(canon_digest).str(&format!("{:?}{:?}", m, via)).get();
                    ctx.done(unit, sub, digest, Some(nt));
                    if sub % 301 == 11 {
                        ctx.sample(|| serde_json::json!({"case": Case { doc: D::NAME.into(), vi, mutation: *m, via: *via }, "field": field}));
                    }
                }
                Err(v) => {
                    ctx.done(unit, sub, Fnv::new().str(&v.class).get(), None);
                    ctx.violation(v, unit, sub, || serde_json::to_value(&Case { doc: D::NAME.into(), vi, mutation: *m, via: *via }).unwrap());
                }
            }
        }
    }
}

pub fn run_unit(ctx: &mut Ctx, unit: u64) {
    let (doc, vi) = unit_doc(unit);
    docs::dispatch(doc, RunUnit { ctx, unit, vi });
}

pub fn case_at(ctx: &mut Ctx, unit: u64, sub: u64) -> Option<serde_json::Value> {
    let (doc, vi) = unit_doc(unit);
    cases(ctx.seed, doc, vi, ctx.tier).get(sub as usize).map(|(m, via)| serde_json::to_value(&Case { doc: doc.into(), vi, mutation: *m, via: *via }).unwrap())
}

struct Replay<'a> {
    case: &'a Case,
    seed: u64,
    tier: Tier,
    scratch: std::path::PathBuf,
}
impl DocFn for Replay<'_> {
    type Out = Result<Option<Violation>, String>;
    fn call<D: Doc>(self) -> Self::Out {
        let Some(p) = prep_doc_need::<D>(self.seed, ID, self.case.vi, self.tier, Need::Stream) else { return Err("the fault-free control run of this value fails".into()) };
        Ok(exec(&p, self.case.mutation, self.case.via, &self.scratch).err())
    }
}
pub fn replay(case: &serde_json::Value, ctx: &mut Ctx) -> Result<Option<Violation>, String> {
    let c: Case = serde_json::from_value(case.clone()).map_err(|e| e.to_string())?;
    docs::dispatch(&c.doc, Replay { case: &c, seed: ctx.seed, tier: ctx.tier, scratch: ctx.scratch.clone() }).unwrap_or(Err("unknown document".into()))
}

pub fn shrink(case: &serde_json::Value) -> Vec<serde_json::Value> {
    let Ok(c) = serde_json::from_value::<Case>(case.clone()) else { return vec![] };
    let mut out: Vec<Case> = Vec::new();
    for vi in 0..c.vi.min(3) {
        out.push(Case { vi, ..c.clone() });
    }
    if c.via != Via::Full {
        out.push(Case { via: Via::Full, ..c.clone() });
    }
    if let Mutation::Minor(v) = c.mutation {
        if v > 2 {
            out.push(Case { mutation: Mutation::Minor(v / 2), ..c.clone() });
            out.push(Case { mutation: Mutation::Minor(v - 1), ..c.clone() });
        }
    }
    out.into_iter().map(|d| serde_json::to_value(&d).unwrap()).collect()
}
