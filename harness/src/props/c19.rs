//! C19 — `AlignedCursor` against `std::io::Cursor<Vec<u8>>` as executable reference model.
//! Seeded operation histories (swarm-style alphabets), checked step by step.

use crate::ctx::{catch, Ctx, Tier, Violation};
use crate::rng::{mix, Fnv, Rng};
use epserde::utils::AlignedCursor;
use maligned::{Alignment, A128, A16, A2, A256, A32, A4, A64, A8};
use serde::{Deserialize, Serialize};
use std::io::{Cursor, Read, Seek, SeekFrom, Write};

pub const ID: &str = "C19";
const WRITE_LIMIT: u64 = 1 << 20;

#[derive(Clone, Debug, PartialEq, Serialize, Deserialize)]
pub enum Op {
    Write { len: usize, salt: u8 },
    Read { len: usize },
    Flush,
    SeekStart(u64),
    SeekCur(i64),
    SeekEnd(i64),
    SetPos(u64),
    StreamPos,
    Accessors,
    /// write `val` through `as_bytes_mut()[idx % len]` (no-op when empty)
    Poke { idx: usize, val: u8 },
    /// continue on a clone of the cursor
    CloneSelf,
    /// provided methods (std compositions of read / write unless the cursor overrides them)
    ReadExact { len: usize },
    WriteAll { len: usize, salt: u8 },
    ReadToEnd,
}

#[derive(Clone, Debug, Serialize, Deserialize)]
pub struct Case {
    pub align: usize,
    /// Some(c): start from with_capacity(c); None: new()
    pub cap: Option<usize>,
    pub ops: Vec<Op>,
}

const ALIGNS: [usize; 8] = [2, 4, 8, 16, 32, 64, 128, 256];
const WLENS: [usize; 14] = [0, 1, 2, 3, 7, 8, 15, 16, 17, 31, 64, 100, 1000, 5000];

fn gen_case(r: &mut Rng) -> Case {
    gen_case_n(r, 64)
}
fn gen_case_n(r: &mut Rng, max_ops: u64) -> Case {
    let align = *r.pick(&ALIGNS);
    let cap = if r.chance(1, 4) { Some(*r.pick(&[0usize, 1, 15, 16, 17, 100, 4096])) } else { None };
    let nops = r.range(1, max_ops) as usize;
    // swarm: each run enables a random subset of the alphabet (writes always possible)
    let mask = r.next() | 1;
    let past_end_bias = r.chance(1, 2);
    let mut ops = Vec::with_capacity(nops);
    // a tiny shadow of (pos, len) so that arguments can be placed relative to the current state
    let (mut pos, mut len): (u64, u64) = (0, 0);
    let mut first = true;
    while ops.len() < nops {
        let mut k = r.below(14);
        if first && past_end_bias {
            k = if r.chance(1, 2) { 6 } else { 3 };
        }
        first = false;
        if mask & (1 << k) == 0 {
            continue;
        }
        let op = match k {
            0 | 10 => {
                let l = if r.chance(1, 6) { 0 } else { *r.pick(&WLENS) };
                Op::Write { len: l, salt: r.next() as u8 }
            }
            1 => Op::Read { len: *r.pick(&[0usize, 1, 2, 7, 8, 16, 33, 100, 2000]) },
            2 => Op::Flush,
            3 => Op::SeekStart(match r.below(6) {
                0 => 0,
                1 => len,
                2 => len + r.range(1, 300),
                3 => r.below(len + 1),
                4 => *r.pick(&[u64::MAX, u64::MAX - 1, i64::MAX as u64, 1 << 40]),
                _ => r.below(2000),
            }),
            4 => Op::SeekCur(match r.below(6) {
                0 => -(r.below(pos.min(1 << 30) + 2) as i64),
                1 => r.below(300) as i64,
                2 => i64::MIN,
                3 => i64::MAX,
                4 => -(pos.min(i64::MAX as u64) as i64),
                _ => r.range(0, 40) as i64 - 20,
            }),
            5 => Op::SeekEnd(match r.below(6) {
                0 => -(r.below(len + 2) as i64),
                1 => r.below(300) as i64,
                2 => i64::MIN,
                3 => i64::MAX,
                4 => 0,
                _ => r.range(0, 40) as i64 - 20,
            }),
            6 => Op::SetPos(match r.below(5) {
                0 => len + r.range(1, 200),
                1 => r.below(len + 1),
                2 => *r.pick(&[u64::MAX, u64::MAX - 7, 1 << 33]),
                3 => len,
                _ => r.below(3000),
            }),
            7 => Op::StreamPos,
            8 => {
                if r.chance(1, 2) {
                    Op::Accessors
                } else {
                    Op::Poke { idx: r.next() as usize, val: r.next() as u8 }
                }
            }
            9 => Op::CloneSelf,
            11 => Op::ReadExact { len: *r.pick(&[0usize, 1, 3, 8, 17, 100, 3000]) },
            12 => Op::WriteAll { len: *r.pick(&WLENS), salt: r.next() as u8 },
            _ => Op::ReadToEnd,
        };
        // update the shadow roughly (exact values are irrelevant; only used to aim arguments)
        match &op {
            Op::Write { len: l, .. } | Op::WriteAll { len: l, .. } => {
                if pos.saturating_add(*l as u64) <= WRITE_LIMIT {
                    if pos > len || *l > 0 {
                        len = len.max(pos + *l as u64);
                    }
                    pos += *l as u64;
                }
            }
            Op::Read { len: l } => {
                if pos < len {
                    pos += (*l as u64).min(len - pos);
                }
            }
            Op::SeekStart(n) | Op::SetPos(n) => pos = *n,
            Op::SeekCur(o) => {
                if let Some(n) = pos.checked_add_signed(*o) {
                    pos = n
                }
            }
            Op::SeekEnd(o) => {
                if let Some(n) = len.checked_add_signed(*o) {
                    pos = n
                }
            }
            _ => {}
        }
        ops.push(op);
    }
    Case { align, cap, ops }
}

struct Exec {
    /// event digest of the history (results only, no addresses)
    digest: u64,
    wrote_past_end: bool,
    empty_write_past_end: bool,
    gap_fill: bool,
    seek_err: bool,
    steps: u64,
    skipped: u64,
}

fn ioerr_kind<T>(r: &std::io::Result<T>) -> Option<std::io::ErrorKind> {
    r.as_ref().err().map(|e| e.kind())
}

fn exec_typed<T: Alignment>(case: &Case) -> Result<Exec, Violation> {
    let mut cur: AlignedCursor<T> = match case.cap {
        Some(c) => AlignedCursor::with_capacity(c),
        None => AlignedCursor::new(),
    };
    let mut model: Cursor<Vec<u8>> = Cursor::new(Vec::new());
    let mut h = Fnv::new();
    let mut ex = Exec { digest: 0, wrote_past_end: false, empty_write_past_end: false, gap_fill: false, seek_err: false, steps: 0, skipped: 0 };
    let align = std::mem::align_of::<T>();
    for (i, op) in case.ops.iter().enumerate() {
        ex.steps += 1;
        let fail = |what: &str, d: String| Violation::new(format!("C19/{}", what), format!("op#{} {:?}: {}", i, op, d));
        match op {
            Op::Write { len, salt } => {
                let mpos = model.position();
                if mpos.saturating_add(*len as u64) > WRITE_LIMIT {
                    ex.skipped += 1;
                    h.u64(0xEE);
                    continue;
                }
                let buf: Vec<u8> = (0..*len).map(|j| (i as u8).wrapping_mul(31).wrapping_add((j as u8).wrapping_mul(7)).wrapping_add(*salt) | 1).collect();
                let past = mpos > model.get_ref().len() as u64;
                if past {
                    ex.wrote_past_end = true;
                    if *len == 0 {
                        ex.empty_write_past_end = true;
                    } else {
                        ex.gap_fill = true;
                    }
                }
                let rm = model.write(&buf);
                let rc = catch(|| cur.write(&buf)).map_err(|p| fail("panic", format!("AlignedCursor::write panicked ({}); std cursor returned {:?}", p, rm)))?;
                match (&rm, &rc) {
                    (Ok(a), Ok(b)) if a == b => {
                        h.u64(*a as u64);
                    }
                    (Err(_), Err(_)) if ioerr_kind(&rm) == ioerr_kind(&rc) => {
                        h.u64(0xE0);
                    }
                    _ => return Err(fail("result-mismatch", format!("write: model {:?}, cursor {:?}", rm, rc))),
                }
            }
            Op::Read { len } => {
                let mut bm = vec![0u8; *len];
                let mut bc = vec![0u8; *len];
                let rm = model.read(&mut bm);
                let rc = catch(|| cur.read(&mut bc)).map_err(|p| fail("panic", format!("AlignedCursor::read panicked ({})", p)))?;
                match (&rm, &rc) {
                    (Ok(a), Ok(b)) if a == b => {
                        if bm[..*a] != bc[..*a] {
                            return Err(fail("contents-mismatch", format!("read returned different bytes ({} bytes)", a)));
                        }
                        h.u64(*a as u64).bytes(&bm[..*a]);
                    }
                    (Err(_), Err(_)) if ioerr_kind(&rm) == ioerr_kind(&rc) => {
                        h.u64(0xE1);
                    }
                    _ => return Err(fail("result-mismatch", format!("read: model {:?}, cursor {:?}", rm, rc))),
                }
            }
            Op::Flush => {
                let rm = model.flush();
                let rc = cur.flush();
                if rm.is_ok() != rc.is_ok() {
                    return Err(fail("result-mismatch", format!("flush: model {:?}, cursor {:?}", rm, rc)));
                }
            }
            Op::SeekStart(_) | Op::SeekCur(_) | Op::SeekEnd(_) => {
                let sf = match op {
                    Op::SeekStart(n) => SeekFrom::Start(*n),
                    Op::SeekCur(o) => SeekFrom::Current(*o),
                    Op::SeekEnd(o) => SeekFrom::End(*o),
                    _ => unreachable!(),
                };
                let rm = model.seek(sf);
                let rc = catch(|| cur.seek(sf)).map_err(|p| fail("panic", format!("AlignedCursor::seek panicked ({})", p)))?;
                match (&rm, &rc) {
                    (Ok(a), Ok(b)) if a == b => {
                        h.u64(*a);
                    }
                    (Err(_), Err(_)) if ioerr_kind(&rm) == ioerr_kind(&rc) => {
                        ex.seek_err = true;
                        h.u64(0xE2);
                    }
                    _ => return Err(fail("result-mismatch", format!("seek: model {:?}, cursor {:?}", rm, rc))),
                }
            }
            Op::SetPos(n) => {
                model.set_position(*n);
                cur.set_position(*n as usize);
            }
            Op::StreamPos => {
                let rm = model.stream_position();
                let rc = cur.stream_position();
                match (&rm, &rc) {
                    (Ok(a), Ok(b)) if a == b => {}
                    _ => return Err(fail("result-mismatch", format!("stream_position: model {:?}, cursor {:?}", rm, rc))),
                }
            }
            Op::Accessors => {
                if cur.is_empty() != model.get_ref().is_empty() {
                    return Err(fail("length-mismatch", format!("is_empty {} vs model len {}", cur.is_empty(), model.get_ref().len())));
                }
            }
            Op::Poke { idx, val } => {
                let l = model.get_ref().len();
                if l > 0 && cur.len() == l {
                    model.get_mut()[idx % l] = *val;
                    cur.as_bytes_mut()[idx % l] = *val;
                }
            }
            Op::CloneSelf => {
                cur = cur.clone();
            }
            Op::ReadExact { len } => {
                let mut bm = vec![0u8; *len];
                let mut bc = vec![0u8; *len];
                let rm = model.read_exact(&mut bm);
                let rc = catch(|| cur.read_exact(&mut bc)).map_err(|p| fail("panic", format!("AlignedCursor::read_exact panicked ({})", p)))?;
                match (&rm, &rc) {
                    (Ok(()), Ok(())) => {
                        if bm != bc {
                            return Err(fail("contents-mismatch", "read_exact returned different bytes".to_string()));
                        }
                        h.u64(0xA0).bytes(&bm);
                    }
                    (Err(_), Err(_)) if ioerr_kind(&rm) == ioerr_kind(&rc) => {
                        // after a *failed* read_exact std documents the buffer and position as unspecified (std's own
                        // cursor and the default implementation differ): not compared; both continue from the model's
                        cur.set_position(model.position() as usize);
                        h.u64(0xA1);
                    }
                    _ => return Err(fail("result-mismatch", format!("read_exact: model {:?}, cursor {:?}", rm, rc))),
                }
            }
            Op::WriteAll { len, salt } => {
                let mpos = model.position();
                // an *empty* write_all is a no-op in the trait's default implementation (it never calls `write`),
                // while std's cursor specialises it and pads: a corner of std's specialisation, not of the cursor
                // under test; not executed
                if *len == 0 || mpos.saturating_add(*len as u64) > WRITE_LIMIT {
                    ex.skipped += 1;
                    h.u64(0xEE);
                    continue;
                }
                let buf: Vec<u8> = (0..*len).map(|j| (i as u8).wrapping_mul(29).wrapping_add((j as u8).wrapping_mul(11)).wrapping_add(*salt) | 1).collect();
                if mpos > model.get_ref().len() as u64 {
                    ex.wrote_past_end = true;
                }
                let rm = model.write_all(&buf);
                let rc = catch(|| cur.write_all(&buf)).map_err(|p| fail("panic", format!("AlignedCursor::write_all panicked ({}); std cursor returned {:?}", p, rm)))?;
                match (&rm, &rc) {
                    (Ok(()), Ok(())) => {
                        h.u64(0xA2);
                    }
                    (Err(_), Err(_)) if ioerr_kind(&rm) == ioerr_kind(&rc) => {
                        h.u64(0xA3);
                    }
                    _ => return Err(fail("result-mismatch", format!("write_all: model {:?}, cursor {:?}", rm, rc))),
                }
            }
            Op::ReadToEnd => {
                let mut vm = Vec::new();
                let mut vc = Vec::new();
                let rm = model.read_to_end(&mut vm);
                let rc = catch(|| cur.read_to_end(&mut vc)).map_err(|p| fail("panic", format!("AlignedCursor::read_to_end panicked ({})", p)))?;
                match (&rm, &rc) {
                    (Ok(a), Ok(b)) if a == b => {
                        if vm != vc {
                            return Err(fail("contents-mismatch", "read_to_end returned different bytes".to_string()));
                        }
                        h.u64(0xA4).u64(*a as u64);
                    }
                    (Err(_), Err(_)) if ioerr_kind(&rm) == ioerr_kind(&rc) => {
                        cur.set_position(model.position() as usize);
                        h.u64(0xA5);
                    }
                    _ => return Err(fail("result-mismatch", format!("read_to_end: model {:?}, cursor {:?}", rm, rc))),
                }
            }
        }
        // cross-invariants after every step
        if cur.position() as u64 != model.position() {
            return Err(fail("position-mismatch", format!("position {} vs model {}", cur.position(), model.position())));
        }
        if cur.len() != model.get_ref().len() {
            return Err(fail("length-mismatch", format!("len {} vs model {}", cur.len(), model.get_ref().len())));
        }
        let bytes = cur.as_bytes();
        if bytes.as_ptr() as usize % align != 0 {
            return Err(fail("misaligned-storage", format!("storage address is not a multiple of {}", align)));
        }
        if bytes != model.get_ref().as_slice() {
            let at = bytes.iter().zip(model.get_ref().iter()).position(|(a, b)| a != b);
            return Err(fail("contents-mismatch", format!("as_bytes differs from the model at offset {:?} (len {})", at, bytes.len())));
        }
        h.u64(model.position()).u64(model.get_ref().len() as u64);
    }
    // into_parts at the end
    let want = model.into_inner();
    let (v, l) = cur.into_parts();
    if l != want.len() {
        return Err(Violation::new("C19/length-mismatch", format!("into_parts len {} vs model {}", l, want.len())));
    }
    if v.len() * std::mem::size_of::<T>() < l {
        return Err(Violation::new("C19/length-mismatch", format!("into_parts storage {} bytes < len {}", v.len() * std::mem::size_of::<T>(), l)));
    }
    let got = unsafe { std::slice::from_raw_parts(v.as_ptr() as *const u8, l) };
    if got != want.as_slice() {
        return Err(Violation::new("C19/contents-mismatch", "into_parts storage differs from the model".to_string()));
    }
    ex.digest = h.get();
    Ok(ex)
}

fn exec(case: &Case) -> Result<Exec, Violation> {
    match case.align {
        2 => exec_typed::<A2>(case),
        4 => exec_typed::<A4>(case),
        8 => exec_typed::<A8>(case),
        16 => exec_typed::<A16>(case),
        32 => exec_typed::<A32>(case),
        64 => exec_typed::<A64>(case),
        128 => exec_typed::<A128>(case),
        _ => exec_typed::<A256>(case),
    }
}

pub fn n_units(tier: Tier) -> u64 {
    match tier {
        Tier::Quick => 8192,
        Tier::Thorough => 262144,
    }
}
const PER_UNIT: u64 = 256;

pub fn case_for(seed: u64, unit: u64, sub: u64) -> Case {
    let mut r = Rng::new(mix(seed, ID, unit, sub));
    // one history in sixteen is long (up to 400 operations)
    if sub % 16 == 15 {
        gen_case_n(&mut r, 400)
    } else {
        gen_case(&mut r)
    }
}

pub fn run_unit(ctx: &mut Ctx, unit: u64) {
    for sub in 0..PER_UNIT {
        ctx.begin(unit, sub);
        let case = case_for(ctx.seed, unit, sub);
        match exec(&case) {
            Ok(ex) => {
                ctx.logical_steps += ex.steps;
                if ex.wrote_past_end {
                    ctx.count("probe.write_past_end");
                }
                if ex.empty_write_past_end {
                    ctx.count("probe.empty_write_past_end");
                }
                if ex.gap_fill {
                    ctx.count("probe.gap_zero_fill");
                }
                if ex.seek_err {
                    ctx.count("probe.seek_error");
                }
                ctx.add("ops.skipped_over_1MiB", ex.skipped);
                ctx.add(&format!("align.A{}", case.align), 1);
                {
                    let mut h = Fnv::new();
                    for op in &case.ops {
                        h.u64(match op {
                            Op::Write { len, .. } => 1 + ((*len == 0) as u64) * 16,
                            Op::Read { .. } => 2,
                            Op::Flush => 3,
                            Op::SeekStart(_) => 4,
                            Op::SeekCur(_) => 5,
                            Op::SeekEnd(_) => 6,
                            Op::SetPos(_) => 7,
                            Op::StreamPos => 8,
                            Op::Accessors => 9,
                            Op::Poke { .. } => 10,
                            Op::CloneSelf => 11,
                            Op::ReadExact { .. } => 12,
                            Op::WriteAll { len, .. } => 13 + ((*len == 0) as u64) * 16,
                            Op::ReadToEnd => 14,
                        });
                    }
                    ctx.aux.insert(h.get());
                }
                let nt = if ex.wrote_past_end { Some(Fnv::new().str(&format!("{:?}", case)).get()) } else { None };
                ctx.done(unit, sub, ex.digest, nt);
                if ex.wrote_past_end {
                    ctx.sample(|| serde_json::to_value(&case).unwrap());
                }
            }
            Err(v) => {
                let d = Fnv::new().str(&v.class).get();
                ctx.done(unit, sub, d, None);
                ctx.violation(v, unit, sub, || serde_json::to_value(&case).unwrap());
            }
        }
    }
}

pub fn replay(case: &serde_json::Value) -> Result<Option<Violation>, String> {
    let c: Case = serde_json::from_value(case.clone()).map_err(|e| e.to_string())?;
    Ok(exec(&c).err())
}

pub fn shrink(case: &serde_json::Value) -> Vec<serde_json::Value> {
    let Ok(c) = serde_json::from_value::<Case>(case.clone()) else { return vec![] };
    let mut out = Vec::new();
    // drop suffixes first (violations are prefix-closed), then single ops, then simplify arguments
    for n in [1usize, 2, 4, 8, 16, 32] {
        if c.ops.len() > n {
            let mut d = c.clone();
            d.ops.truncate(c.ops.len() - n);
            out.push(d);
        }
    }
    for i in 0..c.ops.len() {
        let mut d = c.clone();
        d.ops.remove(i);
        out.push(d);
    }
    if c.cap.is_some() {
        let mut d = c.clone();
        d.cap = None;
        out.push(d);
    }
    if c.align != 16 {
        let mut d = c.clone();
        d.align = 16;
        out.push(d);
    }
    for i in 0..c.ops.len() {
        let simpler = match &c.ops[i] {
            Op::Write { len, salt } if *len > 1 => Some(Op::Write { len: len / 2, salt: *salt }),
            Op::Write { len, salt } if *len == 1 && *salt != 0 => Some(Op::Write { len: 1, salt: 0 }),
            Op::Read { len } if *len > 1 => Some(Op::Read { len: len / 2 }),
            Op::ReadExact { len } if *len > 1 => Some(Op::ReadExact { len: len / 2 }),
            Op::WriteAll { len, salt } if *len > 1 => Some(Op::WriteAll { len: len / 2, salt: *salt }),
            Op::SetPos(n) if *n > 1 => Some(Op::SetPos(n / 2)),
            Op::SeekStart(n) if *n > 1 => Some(Op::SeekStart(n / 2)),
            Op::SeekCur(n) if *n > 1 || *n < -1 => Some(Op::SeekCur(n / 2)),
            Op::SeekEnd(n) if *n > 1 || *n < -1 => Some(Op::SeekEnd(n / 2)),
            _ => None,
        };
        if let Some(s) = simpler {
            let mut d = c.clone();
            d.ops[i] = s;
            out.push(d);
        }
    }
    out.into_iter().map(|d| serde_json::to_value(&d).unwrap()).collect()
}
