//! Placement arena: the simulator decides *where* the buffer handed to ε-copy deserialization
//! lives (every base-address residue, optionally flush against a PROT_NONE guard page).

pub struct Arena {
    base: *mut u8,
    /// usable bytes before the guard page
    cap: usize,
    total: usize,
}
unsafe impl Send for Arena {}

const PAGE: usize = 4096;

impl Arena {
    /// `cap` usable bytes (rounded up to pages) followed by one inaccessible page.
    pub fn new(cap: usize) -> Arena {
        let cap = (cap + PAGE - 1) / PAGE * PAGE;
        let total = cap + PAGE;
        unsafe {
            let p = libc::syscall(libc::SYS_mmap, 0usize, total, libc::PROT_READ | libc::PROT_WRITE, libc::MAP_PRIVATE | libc::MAP_ANONYMOUS, -1i32, 0usize);
            if p == -1 {
                crate::tracker::fatal(b"HARNESS-ERROR arena mmap failed\n");
            }
            let base = p as *mut u8;
            if libc::syscall(libc::SYS_mprotect, base.add(cap), PAGE, libc::PROT_NONE) != 0 {
                crate::tracker::fatal(b"HARNESS-ERROR arena mprotect failed\n");
            }
            Arena { base, cap, total }
        }
    }
    pub fn cap(&self) -> usize {
        self.cap
    }
    /// Copy `bytes` so that the first byte is at an address ≡ `residue` (mod 4096 granularity: base is
    /// page aligned, so address mod m = residue mod m for every m | 4096). Surroundings are 0x5A.
    pub fn place(&mut self, bytes: &[u8], residue: usize) -> &[u8] {
        assert!(residue + bytes.len() + 64 <= self.cap, "arena too small");
        unsafe {
            let lo = residue.saturating_sub(64);
            std::ptr::write_bytes(self.base.add(lo), 0x5A, residue - lo);
            std::ptr::copy_nonoverlapping(bytes.as_ptr(), self.base.add(residue), bytes.len());
            std::ptr::write_bytes(self.base.add(residue + bytes.len()), 0x5A, 64);
            std::slice::from_raw_parts(self.base.add(residue), bytes.len())
        }
    }
    /// Copy `bytes` so that its *end* is as close to the guard page as a base aligned to `unit`
    /// allows. Returns the slice and the slack (bytes between its end and the guard page, < unit,
    /// filled with 0x5A).
    pub fn place_flush(&mut self, bytes: &[u8], unit: usize) -> (&[u8], usize) {
        let unit = unit.max(1);
        assert!(bytes.len() + unit <= self.cap, "arena too small");
        let start = (self.cap - bytes.len()) / unit * unit;
        let slack = self.cap - (start + bytes.len());
        unsafe {
            std::ptr::copy_nonoverlapping(bytes.as_ptr(), self.base.add(start), bytes.len());
            std::ptr::write_bytes(self.base.add(start + bytes.len()), 0x5A, slack);
            (std::slice::from_raw_parts(self.base.add(start), bytes.len()), slack)
        }
    }
    pub fn base_addr(&self) -> usize {
        self.base as usize
    }
}
impl Drop for Arena {
    fn drop(&mut self) {
        unsafe {
            libc::syscall(libc::SYS_munmap, self.base, self.total);
        }
    }
}
