//! Tracking global allocator: the simulator owns the heap.
//!
//! * every block is in a static open-addressing table from the first allocation of the process;
//! * alloc junk-fills with 0xA5 (uninitialised reads become deterministic and visible);
//! * an invalid / double / wrong-layout free is **recorded and suppressed** (the process stays
//!   healthy and the run reports it);
//! * a free, during a library call, of a block that was live before the call is a
//!   *source-freed* event: recorded and suppressed;
//! * while a run is armed every other free poisons the block with 0xDD and quarantines it until
//!   the end of the run, when the poison is verified (write-after-free) and the block released;
//! * blocks allocated inside a library call during an armed run are counted; conservation
//!   (nothing library-made is live after the run) is checked by the caller.
//!
//! Nothing in here allocates.

use std::alloc::{GlobalAlloc, Layout, System};
use std::cell::Cell;
use std::sync::atomic::{AtomicBool, AtomicU64, AtomicUsize, Ordering};

pub struct Tracker;

const CAP: usize = 1 << 21;
const MASK: usize = CAP - 1;
const QCAP: usize = 1 << 16;
const QBYTES_MAX: usize = 256 << 20;
/// Blocks above this size are neither junk-filled nor poisoned (the memory is never touched by the
/// tracker, as on a real system with overcommit); blocks above HUGE_REFUSE are refused like a real
/// allocator would refuse them on this machine.
const HUGE_NOFILL: usize = 1 << 30;
const HUGE_REFUSE: usize = 48 << 30;

const ST_EMPTY: u8 = 0;
const ST_LIVE: u8 = 1;
const ST_QUAR: u8 = 2;

#[derive(Clone, Copy)]
struct Entry {
    addr: usize,
    size: usize,
    serial: u64,
    align: u32,
    state: u8,
    /// bit 0: made inside a library call during the current armed run (conservation accounting)
    /// bit 1: made inside a library call at any time (the library may free / regrow its own blocks later)
    lib: u8,
    op: u16,
}
const EMPTY: Entry = Entry { addr: 0, size: 0, serial: 0, align: 0, state: ST_EMPTY, lib: 0, op: 0 };

static mut TABLE: [Entry; CAP] = [EMPTY; CAP];
static mut QUAR: [usize; QCAP] = [0; QCAP];
static mut QLEN: usize = 0;
static mut QBYTES: usize = 0;
static mut NLIVE: usize = 0;

static LOCK: AtomicBool = AtomicBool::new(false);
static SERIAL: AtomicU64 = AtomicU64::new(1);
static ARMED: AtomicBool = AtomicBool::new(false);
static RUN_START: AtomicU64 = AtomicU64::new(0);
/// library-made blocks of the current armed run that are still live
static LIB_LIVE: AtomicUsize = AtomicUsize::new(0);
static LIB_LIVE_BYTES: AtomicUsize = AtomicUsize::new(0);
pub static ALLOCS: AtomicU64 = AtomicU64::new(0);
pub static FREES: AtomicU64 = AtomicU64::new(0);

thread_local! {
    static LIB_DEPTH: Cell<u32> = const { Cell::new(0) };
    static CALL_START: Cell<u64> = const { Cell::new(0) };
    static CUR_OP: Cell<u16> = const { Cell::new(0) };
}

#[derive(Clone, Copy, Debug, PartialEq, Eq)]
pub enum VKind {
    InvalidFree,
    DoubleFree,
    LayoutMismatch,
    SourceFreed,
    WriteAfterFree,
}
impl VKind {
    pub fn name(self) -> &'static str {
        match self {
            VKind::InvalidFree => "invalid-free",
            VKind::DoubleFree => "double-free",
            VKind::LayoutMismatch => "layout-mismatch",
            VKind::SourceFreed => "source-freed",
            VKind::WriteAfterFree => "write-after-free",
        }
    }
}
#[derive(Clone, Copy, Debug)]
pub struct Viol {
    pub kind: VKind,
    /// size of the block concerned (0 if unknown)
    pub size: usize,
    /// size passed to dealloc
    pub req_size: usize,
    pub align: u32,
    pub req_align: u32,
    pub op: u16,
    pub in_lib: bool,
}
const VCAP: usize = 32;
static mut VIOLS: [Option<Viol>; VCAP] = [None; VCAP];
static mut NVIOL: usize = 0;

#[inline]
fn lock() {
    while LOCK.compare_exchange_weak(false, true, Ordering::Acquire, Ordering::Relaxed).is_err() {
        std::hint::spin_loop();
    }
}
#[inline]
fn unlock() {
    LOCK.store(false, Ordering::Release);
}
#[inline]
fn hash(addr: usize) -> usize {
    ((addr >> 4).wrapping_mul(0x9E37_79B9_7F4A_7C15usize) >> 40) & MASK
}

unsafe fn find(addr: usize) -> Option<usize> {
    let mut i = hash(addr);
    loop {
        let e = &(*std::ptr::addr_of!(TABLE))[i];
        if e.state == ST_EMPTY {
            return None;
        }
        if e.addr == addr {
            return Some(i);
        }
        i = (i + 1) & MASK;
    }
}
unsafe fn insert(e: Entry) {
    if NLIVE >= CAP / 4 * 3 {
        fatal(b"HARNESS-ERROR tracker table full\n");
    }
    let t = &mut *std::ptr::addr_of_mut!(TABLE);
    let mut i = hash(e.addr);
    while t[i].state != ST_EMPTY {
        i = (i + 1) & MASK;
    }
    t[i] = e;
    NLIVE += 1;
}
unsafe fn remove(mut i: usize) {
    let t = &mut *std::ptr::addr_of_mut!(TABLE);
    NLIVE -= 1;
    loop {
        let mut j = i;
        loop {
            j = (j + 1) & MASK;
            if t[j].state == ST_EMPTY {
                t[i] = EMPTY;
                return;
            }
            let k = hash(t[j].addr);
            let between = if i <= j { i < k && k <= j } else { i < k || k <= j };
            if !between {
                break;
            }
        }
        t[i] = t[j];
        i = j;
    }
}
unsafe fn push_viol(v: Viol) {
    if NVIOL < VCAP {
        (*std::ptr::addr_of_mut!(VIOLS))[NVIOL] = Some(v);
    }
    NVIOL += 1;
}
pub fn fatal(msg: &[u8]) -> ! {
    unsafe {
        libc::write(2, msg.as_ptr() as *const _, msg.len());
        libc::_exit(2);
    }
}

unsafe fn release_entry(i: usize, verify: bool) {
    let e = (*std::ptr::addr_of!(TABLE))[i];
    if verify {
        let p = e.addr as *const u8;
        let mut ok = true;
        for k in 0..e.size {
            if *p.add(k) != 0xDD {
                ok = false;
                break;
            }
        }
        if !ok {
            push_viol(Viol {
                kind: VKind::WriteAfterFree,
                size: e.size,
                req_size: 0,
                align: e.align,
                req_align: 0,
                op: e.op,
                in_lib: false,
            });
        }
    }
    System.dealloc(e.addr as *mut u8, Layout::from_size_align_unchecked(e.size, e.align as usize));
    remove(i);
}

unsafe fn drain_quarantine(keep: usize) {
    // release oldest first
    let q = &mut *std::ptr::addr_of_mut!(QUAR);
    let n = QLEN;
    let rel = n - keep.min(n);
    for k in 0..rel {
        if let Some(i) = find(q[k]) {
            let sz = (*std::ptr::addr_of!(TABLE))[i].size;
            QBYTES -= sz;
            release_entry(i, true);
        }
    }
    q.copy_within(rel..n, 0);
    QLEN = n - rel;
}

unsafe impl GlobalAlloc for Tracker {
    unsafe fn alloc(&self, layout: Layout) -> *mut u8 {
        // No workload of the harness needs a block this large; a library that asks for one is acting on
        // garbage (e.g. a length read after a swallowed I/O error). Above 48 GiB (more than this
        // machine could ever back) the request is refused, as the system allocator would; the resulting
        // abort is reported through the crash path with an exact replay. Between 1 GiB and 48 GiB the
        // block is handed out untouched: junk-filling overcommitted memory got workers OOM-killed.
        if layout.size() > HUGE_REFUSE {
            return std::ptr::null_mut();
        }
        let p = System.alloc(layout);
        if p.is_null() {
            return p;
        }
        if layout.size() <= HUGE_NOFILL {
            std::ptr::write_bytes(p, 0xA5, layout.size());
        }
        let depth = LIB_DEPTH.with(|d| d.get());
        let op = CUR_OP.with(|d| d.get());
        let armed = ARMED.load(Ordering::Relaxed);
        let serial = SERIAL.fetch_add(1, Ordering::Relaxed);
        let lib = ((armed && depth > 0) as u8) | (((depth > 0) as u8) << 1);
        lock();
        insert(Entry { addr: p as usize, size: layout.size(), serial, align: layout.align() as u32, state: ST_LIVE, lib, op });
        unlock();
        if lib & 1 != 0 {
            LIB_LIVE.fetch_add(1, Ordering::Relaxed);
            LIB_LIVE_BYTES.fetch_add(layout.size(), Ordering::Relaxed);
        }
        ALLOCS.fetch_add(1, Ordering::Relaxed);
        p
    }

    unsafe fn dealloc(&self, ptr: *mut u8, layout: Layout) {
        let depth = LIB_DEPTH.with(|d| d.get());
        let call_start = CALL_START.with(|d| d.get());
        let armed = ARMED.load(Ordering::Relaxed);
        FREES.fetch_add(1, Ordering::Relaxed);
        lock();
        let idx = find(ptr as usize);
        let Some(i) = idx else {
            push_viol(Viol { kind: VKind::InvalidFree, size: 0, req_size: layout.size(), align: 0, req_align: layout.align() as u32, op: CUR_OP.with(|d| d.get()), in_lib: depth > 0 });
            unlock();
            return; // suppressed
        };
        let e = (*std::ptr::addr_of!(TABLE))[i];
        if e.state == ST_QUAR {
            push_viol(Viol { kind: VKind::DoubleFree, size: e.size, req_size: layout.size(), align: e.align, req_align: layout.align() as u32, op: e.op, in_lib: depth > 0 });
            unlock();
            return; // suppressed
        }
        if e.size != layout.size() || e.align as usize != layout.align() {
            push_viol(Viol { kind: VKind::LayoutMismatch, size: e.size, req_size: layout.size(), align: e.align, req_align: layout.align() as u32, op: e.op, in_lib: depth > 0 });
            // carry on with the block's own layout
        }
        // a block that was live before this library call and was NOT made by the library itself (a cache or
        // scratch buffer of the library may legitimately be freed or regrown in a later call) belongs to
        // the caller: the source value, the sink, the harness
        if depth > 0 && e.serial < call_start && e.lib & 2 == 0 {
            push_viol(Viol { kind: VKind::SourceFreed, size: e.size, req_size: layout.size(), align: e.align, req_align: layout.align() as u32, op: e.op, in_lib: true });
            unlock();
            return; // suppressed: the rightful owner will free it later
        }
        if e.lib & 1 != 0 && e.serial >= RUN_START.load(Ordering::Relaxed) {
            LIB_LIVE.fetch_sub(1, Ordering::Relaxed);
            LIB_LIVE_BYTES.fetch_sub(e.size, Ordering::Relaxed);
        }
        if armed && e.size <= HUGE_NOFILL {
            std::ptr::write_bytes(ptr, 0xDD, e.size);
            (*std::ptr::addr_of_mut!(TABLE))[i].state = ST_QUAR;
            if QLEN >= QCAP || QBYTES + e.size > QBYTES_MAX {
                drain_quarantine(QCAP / 2);
                while QBYTES + e.size > QBYTES_MAX && QLEN > 0 {
                    drain_quarantine(QLEN / 2);
                }
            }
            (*std::ptr::addr_of_mut!(QUAR))[QLEN] = ptr as usize;
            QLEN += 1;
            QBYTES += e.size;
            unlock();
        } else {
            release_entry(i, false);
            unlock();
        }
    }
}

// ---------------------------------------------------------------------------------------
// control interface

/// Begin an armed run: quarantine on, conservation counters reset.
pub fn arm() {
    lock();
    unsafe {
        NVIOL = 0;
    }
    unlock();
    RUN_START.store(SERIAL.load(Ordering::Relaxed), Ordering::Relaxed);
    LIB_LIVE.store(0, Ordering::Relaxed);
    LIB_LIVE_BYTES.store(0, Ordering::Relaxed);
    ARMED.store(true, Ordering::SeqCst);
}

#[derive(Debug, Clone, Default)]
pub struct RunReport {
    pub viols: Vec<Viol>,
    pub total_viols: usize,
    pub lib_live_blocks: usize,
    pub lib_live_bytes: usize,
    /// (size, op) of the leaked blocks, at most 8, largest first
    pub leaked: Vec<(usize, u16)>,
}

/// End an armed run: verify and release the quarantine, report violations and what the
/// library allocated during the run and never released.
pub fn disarm() -> RunReport {
    ARMED.store(false, Ordering::SeqCst);
    lock();
    unsafe {
        drain_quarantine(0);
    }
    let (vs, total) = unsafe {
        let n = NVIOL.min(VCAP);
        let mut tmp = [None; VCAP];
        tmp[..n].copy_from_slice(&(*std::ptr::addr_of!(VIOLS))[..n]);
        let t = NVIOL;
        NVIOL = 0;
        (tmp, t)
    };
    let blocks = LIB_LIVE.load(Ordering::Relaxed);
    let bytes = LIB_LIVE_BYTES.load(Ordering::Relaxed);
    let mut leaked_tmp = [(0usize, 0u16); 8];
    let mut nleak = 0;
    if blocks != 0 {
        let start = RUN_START.load(Ordering::Relaxed);
        unsafe {
            for e in (*std::ptr::addr_of!(TABLE)).iter() {
                if e.state == ST_LIVE && e.lib & 1 != 0 && e.serial >= start {
                    if nleak < 8 {
                        leaked_tmp[nleak] = (e.size, e.op);
                        nleak += 1;
                    } else {
                        // keep the largest
                        let (mi, _) = leaked_tmp.iter().enumerate().min_by_key(|(_, x)| x.0).unwrap();
                        if leaked_tmp[mi].0 < e.size {
                            leaked_tmp[mi] = (e.size, e.op);
                        }
                    }
                }
            }
        }
    }
    unlock();
    let mut leaked: Vec<(usize, u16)> = leaked_tmp[..nleak].to_vec();
    leaked.sort_by(|a, b| b.0.cmp(&a.0).then(a.1.cmp(&b.1)));
    RunReport {
        viols: vs.iter().flatten().copied().collect(),
        total_viols: total,
        lib_live_blocks: blocks,
        lib_live_bytes: bytes,
        leaked,
    }
}

/// Forget library-made blocks that are still live (after a leak has been reported), so that the
/// next run starts from a clean conservation baseline. The blocks themselves stay allocated.
pub fn violations_pending() -> usize {
    lock();
    let n = unsafe { NVIOL };
    unlock();
    n
}

pub fn set_op(op: u16) {
    CUR_OP.with(|c| c.set(op));
}

/// RAII: the current thread is inside a call into the library under test.
pub struct LibCall {
    prev_depth: u32,
    prev_start: u64,
}
pub fn lib_enter() -> LibCall {
    let prev_depth = LIB_DEPTH.with(|d| d.get());
    let prev_start = CALL_START.with(|d| d.get());
    if prev_depth == 0 {
        CALL_START.with(|d| d.set(SERIAL.load(Ordering::Relaxed)));
    }
    LIB_DEPTH.with(|d| d.set(prev_depth + 1));
    LibCall { prev_depth, prev_start }
}
impl Drop for LibCall {
    fn drop(&mut self) {
        LIB_DEPTH.with(|d| d.set(self.prev_depth));
        CALL_START.with(|d| d.set(self.prev_start));
    }
}
/// Run `f` as a call into the library (allocation attribution + source-freed rule).
#[inline]
pub fn in_lib<R>(f: impl FnOnce() -> R) -> R {
    let _g = lib_enter();
    // the frames the library is about to use hold a fixed pattern, not leftovers of the harness (which
    // contain ASLR-dependent pointers): a library bug that reads an uninitialised stack slot then behaves
    // the same in a batch and in a replay
    crate::ctx::scrub_stack();
    f()
}

/// RAII: simulator code called back *from* the library (sink, source, iterator, Drop probes):
/// its allocations are not the library's and it may free what it owns.
pub struct SimCall {
    prev_depth: u32,
}
pub fn sim_enter() -> SimCall {
    let prev_depth = LIB_DEPTH.with(|d| d.get());
    LIB_DEPTH.with(|d| d.set(0));
    SimCall { prev_depth }
}
impl Drop for SimCall {
    fn drop(&mut self) {
        LIB_DEPTH.with(|d| d.set(self.prev_depth));
    }
}

/// Is `addr..addr+len` inside a live (not quarantined) heap block? Returns (block base offset, block size).
pub fn block_of(addr: usize) -> Option<(usize, usize, bool)> {
    // linear scan is too slow for the hot path; this is only used on rare diagnostic paths,
    // where the exact base address is known.
    lock();
    let r = unsafe { find(addr).map(|i| { let e = (*std::ptr::addr_of!(TABLE))[i]; (e.addr, e.size, e.state == ST_LIVE) }) };
    unlock();
    r
}

/// Slow path (full table scan): the live block containing `addr..addr+len`, if any.
pub fn live_block_containing(addr: usize, len: usize) -> Option<(usize, usize)> {
    lock();
    let mut r = None;
    unsafe {
        for e in (*std::ptr::addr_of!(TABLE)).iter() {
            if e.state == ST_LIVE && e.addr <= addr && addr + len <= e.addr + e.size {
                r = Some((e.addr, e.size));
                break;
            }
        }
    }
    unlock();
    r
}

pub fn live_blocks() -> usize {
    lock();
    let n = unsafe { NLIVE };
    unlock();
    n
}
