//! Control: the same API used within the buffer's scope compiles.
use epserde::prelude::*;

#[derive(Epserde, Debug, Clone)]
struct Doc<A> {
    a: A,
    n: u32,
}

fn main() {
    let v = vec![1u64, 2, 3];
    let mut cur = <AlignedCursor<maligned::A16>>::new();
    v.serialize(&mut cur).unwrap();
    let buf = cur.as_bytes().to_vec();
    let r = <Vec<u64>>::deserialize_eps(&buf);
    let _ = r.map(|s| s.len());
    let d = Doc { a: vec![1u64], n: 1 };
    let mut cur = <AlignedCursor<maligned::A16>>::new();
    d.serialize(&mut cur).unwrap();
    let buf = cur.as_bytes().to_vec();
    if let Ok(e) = <Doc<Vec<u64>>>::deserialize_eps(&buf) {
        let field: &[u64] = e.a;
        let _ = field.len();
    }
}
