#!/bin/bash
# Detection matrix: every seeded change (seeded/*/patch.diff, from independent sub-agents) and every own
# sensitivity mutant (sensitivity/*.diff) against the quick tier of every check, in scratch worktrees (never /repo).
# usage: tools/run_seeded.sh [parallel]   -> sensitivity/matrix.tsv
cd /verif
PAR=${1:-4}
PROPS="C08 C09 C10 C11 C12 C13 C14 C15 C19"
mkdir -p build/matrix
one() {
  patch=$1; name=$2
  out=build/matrix/$name.txt
  TESTS=${TESTS:-0} tools/try_patch.sh $patch $PROPS > $out 2>&1
  line="$name"
  for P in $PROPS; do
    e=$(grep -E "^exit\($P\)=" $out | cut -d= -f2)
    cls=$(grep -A0 -E "violation class $P/" $out | head -1 | sed -E 's/.*violation class ([^ ]+).*/\1/')
    line="$line\t$P:${e:-?}${cls:+[$cls]}"
  done
  echo -e "$line"
}
export -f one; export PROPS
( for d in seeded/*/; do n=$(basename $d); echo "$d/patch.diff seeded-$n"; done; for f in sensitivity/*.diff; do n=$(basename $f .diff); echo "$f own-$n"; done ) | xargs -P $PAR -L 1 bash -c 'one $0 $1' | sort > sensitivity/matrix.tsv
cat sensitivity/matrix.tsv
