//! The only source of randomness: SplitMix64 seeding xoshiro256**.
//! Every choice of every run is derived from `mix(VERIF_SEED, property, unit, sub)`.

#[derive(Clone, Debug)]
pub struct Rng {
    s: [u64; 4],
}

#[inline]
pub fn splitmix(x: &mut u64) -> u64 {
    *x = x.wrapping_add(0x9E37_79B9_7F4A_7C15);
    let mut z = *x;
    z = (z ^ (z >> 30)).wrapping_mul(0xBF58_476D_1CE4_E5B9);
    z = (z ^ (z >> 27)).wrapping_mul(0x94D0_49BB_1331_11EB);
    z ^ (z >> 31)
}

/// Stream selector: a run depends on (seed, property tag, unit, sub) and nothing else.
pub fn mix(seed: u64, tag: &str, a: u64, b: u64) -> u64 {
    let mut h = seed ^ 0x5851_F42D_4C95_7F2D;
    let mut out = splitmix(&mut h);
    for &c in tag.as_bytes() {
        h ^= c as u64;
        out ^= splitmix(&mut h);
    }
    h ^= a.wrapping_mul(0xD6E8_FEB8_6659_FD93);
    out ^= splitmix(&mut h);
    h ^= b.wrapping_mul(0xCA5A_8263_9512_1157);
    out ^= splitmix(&mut h);
    out
}

impl Rng {
    pub fn new(seed: u64) -> Rng {
        let mut x = seed;
        let s = [splitmix(&mut x), splitmix(&mut x), splitmix(&mut x), splitmix(&mut x)];
        Rng { s }
    }
    #[inline]
    pub fn next(&mut self) -> u64 {
        let r = self.s[1].wrapping_mul(5).rotate_left(7).wrapping_mul(9);
        let t = self.s[1] << 17;
        self.s[2] ^= self.s[0];
        self.s[3] ^= self.s[1];
        self.s[1] ^= self.s[2];
        self.s[0] ^= self.s[3];
        self.s[2] ^= t;
        self.s[3] = self.s[3].rotate_left(45);
        r
    }
    /// Uniform in 0..n (n > 0).
    #[inline]
    pub fn below(&mut self, n: u64) -> u64 {
        debug_assert!(n > 0);
        // multiply-shift; bias is irrelevant here, determinism is what matters
        ((self.next() as u128 * n as u128) >> 64) as u64
    }
    #[inline]
    pub fn range(&mut self, lo: u64, hi_incl: u64) -> u64 {
        lo + self.below(hi_incl - lo + 1)
    }
    #[inline]
    pub fn chance(&mut self, num: u64, den: u64) -> bool {
        self.below(den) < num
    }
    #[inline]
    pub fn pick<'a, T>(&mut self, xs: &'a [T]) -> &'a T {
        &xs[self.below(xs.len() as u64) as usize]
    }
    pub fn bytes(&mut self, out: &mut [u8]) {
        for ch in out.chunks_mut(8) {
            let v = self.next().to_le_bytes();
            ch.copy_from_slice(&v[..ch.len()]);
        }
    }
}

/// FNV-1a 64, used for every digest in the harness (never a std hasher, never an address).
#[derive(Clone, Copy)]
pub struct Fnv(pub u64);
impl Fnv {
    pub fn new() -> Fnv {
        Fnv(0xcbf2_9ce4_8422_2325)
    }
    #[inline]
    pub fn bytes(&mut self, b: &[u8]) -> &mut Self {
        for &x in b {
            self.0 ^= x as u64;
            self.0 = self.0.wrapping_mul(0x0000_0100_0000_01B3);
        }
        self
    }
    #[inline]
    pub fn u64(&mut self, v: u64) -> &mut Self {
        self.bytes(&v.to_le_bytes())
    }
    pub fn str(&mut self, s: &str) -> &mut Self {
        self.bytes(s.as_bytes()).bytes(&[0xff])
    }
    pub fn get(&self) -> u64 {
        self.0
    }
}
pub fn fnv(b: &[u8]) -> u64 {
    Fnv::new().bytes(b).get()
}
