//! Must NOT compile: returning an ε-copy result past the buffer it borrows from.
use epserde::prelude::*;

fn escape() -> <Vec<u64> as DeserializeInner>::DeserType<'static> {
    let buf: Vec<u8> = vec![0; 128];
    let r = <Vec<u64>>::deserialize_eps(&buf).unwrap();
    r
}

fn main() {
    println!("{}", escape().len());
}
