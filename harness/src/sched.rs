//! Baton scheduler: real OS threads, exactly one runnable at a time. The controller draws
//! (actor, operation) and releases exactly that actor for exactly one operation; the choice of
//! who runs is the simulator's, the threads are real, so a `MemCase` created on one thread really
//! is read, boxed and released (`free` / `munmap`) on another.

use std::sync::mpsc::{channel, Receiver, Sender};
use std::thread::JoinHandle;

type Job = Box<dyn FnOnce() + Send + 'static>;

struct Actor {
    tx: Option<Sender<Job>>,
    handle: Option<JoinHandle<()>>,
}

pub struct Sched {
    actors: Vec<Actor>,
    pub handoffs: u64,
}

impl Sched {
    pub fn new(n: usize) -> Sched {
        let mut actors = Vec::new();
        for i in 0..n {
            let (tx, rx): (Sender<Job>, Receiver<Job>) = channel();
            let handle = std::thread::Builder::new()
                .name(format!("actor-{}", i))
                .stack_size(4 << 20)
                .spawn(move || {
                    while let Ok(job) = rx.recv() {
                        job();
                    }
                })
                .expect("spawn actor");
            actors.push(Actor { tx: Some(tx), handle: Some(handle) });
        }
        Sched { actors, handoffs: 0 }
    }
    pub fn n(&self) -> usize {
        self.actors.len()
    }
    /// Run `f` on actor `a` and wait for it: the baton goes to `a` and comes back.
    pub fn run_on<R: Send + 'static>(&mut self, a: usize, f: impl FnOnce() -> R + Send + 'static) -> R {
        let (rtx, rrx) = channel::<R>();
        let job: Job = Box::new(move || {
            let r = f();
            let _ = rtx.send(r);
        });
        self.handoffs += 1;
        let a = a % self.actors.len();
        self.actors[a].tx.as_ref().unwrap().send(job).expect("actor thread is gone");
        rrx.recv().expect("actor thread died while holding the baton")
    }
}

impl Drop for Sched {
    fn drop(&mut self) {
        for a in &mut self.actors {
            a.tx.take();
        }
        for a in &mut self.actors {
            if let Some(h) = a.handle.take() {
                let _ = h.join();
            }
        }
    }
}
