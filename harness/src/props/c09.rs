//! C09 — backing memory outlives every safe use and is released exactly once; failing loads leak
//! nothing. Same simulated world as C08 plus failing loads (wrong type, header corruption, foreign
//! tag, truncation, empty file, failing mmap/mprotect) and the escape-and-read-after-drop client;
//! oracle = conservation over the tracking allocator and the mapping table.

use super::c08;
use super::world::{self, Case};
use crate::ctx::{Ctx, Tier, Violation};
use crate::rng::{mix, Rng};

pub const ID: &str = "C09";

pub fn n_units(tier: Tier) -> u64 {
    match tier {
        Tier::Quick => 4096,
        Tier::Thorough => 65536,
    }
}
/// The two access paths of the known 'static-escape finding are exercised by fixed histories in
/// every run (unit 0, subs 0, 1 and 2), so that the KNOWN-FINDING lines do not depend on the seed.
fn canonical(sub: u64) -> Option<Case> {
    use super::world::Op;
    use crate::docs::Loader;
    let doc = match sub {
        0 => "VecU64",
        1 => "BoxU32",
        2 => "DeepA",
        _ => return None,
    };
    Some(Case {
        ops: vec![
            Op::Store { actor: 0, doc: doc.into(), vi: 2, over: None },
            Op::Load { actor: 0, file: 0, loader: Loader::Mem, flags: 0 },
            Op::Escape { actor: 1, slot: 0 },
            Op::Drop { actor: 2, slot: 0 },
            Op::ReadEscaped { actor: 1, idx: 0 },
        ],
    })
}

pub fn case_for(seed: u64, tier: Tier, unit: u64, sub: u64) -> Case {
    if unit == 0 {
        if let Some(c) = canonical(sub) {
            return c;
        }
    }
    let mut r = Rng::new(mix(seed, ID, unit, sub));
    Case { ops: world::gen_ops(&mut r, true, tier) }
}
pub fn run_unit(ctx: &mut Ctx, unit: u64) {
    c08::run_unit_for(ctx, unit, ID, |s, t, u, k| case_for(s, t, u, k))
}
pub fn case_at(ctx: &mut Ctx, unit: u64, sub: u64) -> Option<serde_json::Value> {
    Some(serde_json::to_value(&case_for(ctx.seed, ctx.tier, unit, sub)).unwrap())
}
pub fn replay(case: &serde_json::Value, ctx: &mut Ctx) -> Result<Option<Violation>, String> {
    c08::replay_for(case, ctx, ID)
}
pub fn shrink(case: &serde_json::Value) -> Vec<serde_json::Value> {
    c08::shrink(case)
}
