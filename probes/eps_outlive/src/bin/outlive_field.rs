//! Must NOT compile: copying a borrowed field out of an ε-copy structure and keeping it past the buffer.
use epserde::prelude::*;

#[derive(Epserde, Debug, Clone)]
struct Doc<A> {
    a: A,
    n: u32,
}

fn main() {
    let field: &[u64];
    {
        let buf: Vec<u8> = vec![0; 128];
        let e = <Doc<Vec<u64>>>::deserialize_eps(&buf).unwrap();
        field = e.a;
    }
    println!("{}", field.len());
}
