//! Helpers shared by the per-property modules: unit → (document, value), control runs, schema rows.

use crate::ctx::{catch, Tier};
use crate::docs::{Doc, ALL_DOCS};
use crate::rng::{mix, Rng};
use crate::simio::{Script, SimWriter};
use epserde::ser::{Schema, Serialize};

/// Size (≈ number of elements of the outermost collection) of the `vi`-th value of a document.
pub fn size_for(seed: u64, tag: &str, doc: &str, vi: u64, tier: Tier) -> usize {
    let mut r = Rng::new(mix(seed, tag, fx(doc), vi ^ 0x5151));
    match vi {
        0 => 0,
        1 => 1,
        2 => 2 + r.below(6) as usize,
        // one payload above 8 KiB per document in every tier (exceeds BufWriter / BufReader defaults)
        5 => 1100,
        // values whose stream length is fitted to a boundary (only `Padded<..>` documents can be fitted)
        6..=17 => 1 + r.below(4) as usize,
        // one large payload (hundreds of KiB: larger than any I/O chunk a hardened reader/writer might use)
        // for a few sequence documents; fault positions of such streams are sampled (see `positions`)
        3 => {
            if BIG_DOCS.contains(&doc) {
                40_000
            } else {
                3 + r.below(8) as usize
            }
        }
        _ => {
            let big = match tier {
                Tier::Quick => false,
                Tier::Thorough => true,
            };
            match r.below(20) {
                0 if big => 520,  // ≈ 4 KiB of u64
                1 if big => 1100, // > 8 KiB of u64: exceeds BufWriter/BufReader defaults
                2 | 3 => 16 + r.below(48) as usize,
                _ => r.below(14) as usize,
            }
        }
    }
}

/// Value indices 6..=17: stream length ≡ -1, 0, +1 modulo 8192 (buffered writer / reader capacity),
/// 4096 (page), 64 and 16 (the loaders' rounding units).
pub fn fit_for(vi: u64) -> Option<(usize, isize)> {
    if !(6..=17).contains(&vi) {
        return None;
    }
    let k = (vi - 6) as usize;
    let modulus = [8192usize, 4096, 64, 16][k / 3];
    let delta = [-1isize, 0, 1][k % 3];
    Some((modulus, delta))
}

pub const BIG_DOCS: &[&str] = &["VecU8", "VecU64", "VecString", "Str", "DeepA", "PaddedVecU64", "SrcSliceU32", "SrcIterU64", "BoxU32"];

pub fn fx(s: &str) -> u64 {
    crate::rng::Fnv::new().str(s).get()
}

pub fn values_per_doc(tier: Tier, quick: u64, thorough: u64) -> u64 {
    match tier {
        Tier::Quick => quick,
        Tier::Thorough => thorough,
    }
}

/// Documents enumerated by the fault-enumeration checks: all but `DropProbeD`, whose `Drop` reads its
/// borrowed data and therefore belongs to the ownership checks (C08/C09) only.
pub fn enum_docs() -> Vec<&'static str> {
    ALL_DOCS.iter().copied().filter(|d| *d != "DropProbeD" && !crate::docs::OVERALIGNED_DOCS.contains(d)).collect()
}
pub fn n_docs() -> u64 {
    ALL_DOCS.len() as u64 - 1 - crate::docs::OVERALIGNED_DOCS.len() as u64
}
/// Documents of the placement check (C12): the common ones followed by the over-aligned ones (unit 128), for
/// which the heap loaders of the other checks have no fault-free reference.
pub fn placement_docs() -> Vec<&'static str> {
    let mut d = enum_docs();
    d.extend(crate::docs::OVERALIGNED_DOCS.iter().copied());
    d
}
pub fn unit_doc_placement(unit: u64) -> (&'static str, u64) {
    let docs = placement_docs();
    let n = docs.len() as u64;
    (docs[(unit % n) as usize], unit / n)
}
/// unit → (document name, value index)
pub fn unit_doc(unit: u64) -> (&'static str, u64) {
    let docs = enum_docs();
    let n = docs.len() as u64;
    (docs[(unit % n) as usize], unit / n)
}

pub fn gen_value<D: Doc>(seed: u64, tag: &str, vi: u64, tier: Tier) -> (D, usize) {
    let size = size_for(seed, tag, D::NAME, vi, tier);
    let mut r = Rng::new(mix(seed, "value", fx(D::NAME), vi.wrapping_mul(31).wrapping_add(size as u64)));
    let mut v = D::gen(&mut r, size);
    if let Some((modulus, delta)) = fit_for(vi) {
        v.fit_len(modulus, delta);
    }
    (v, size)
}

/// Fault-free serialization through a `SimWriter` with an empty script: returns the stream and the
/// number of sink calls it took. `None` if the control run itself fails (then the fault checks
/// skip the document: that failure belongs to an unclaimed round-trip property).
pub fn control_bytes<S: Serialize>(v: &S) -> Option<(Vec<u8>, usize)> {
    // first pass into a growing Vec to learn the length (SimWriter must be pre-sized)
    let mut tmp: Vec<u8> = Vec::new();
    let r = catch(|| v.serialize(&mut tmp));
    match r {
        Ok(Ok(n)) if n == tmp.len() => {}
        _ => return None,
    }
    let mut w = SimWriter::new(Script::default(), tmp.len(), usize::MAX);
    let r = catch(|| v.serialize(&mut w));
    match r {
        Ok(Ok(_)) if w.accepted == tmp => Some((tmp, w.stats.calls + w.stats.flush_calls)),
        _ => None,
    }
}

pub fn control_schema<S: Serialize>(v: &S) -> Option<Schema> {
    let mut tmp: Vec<u8> = Vec::new();
    match catch(|| v.serialize_with_schema(&mut tmp)) {
        Ok(Ok(s)) => Some(s),
        _ => None,
    }
}

/// Zero-copy blocks of a stream as recorded by the writer: (offset, size, unit).
pub fn blocks_of(schema: &Schema) -> Vec<(usize, usize, usize)> {
    // rows written through `write_bytes` carry the unit in `align` (> 0); plain `write` rows carry 0.
    // (Padding rows have align 1 and can never be misaligned.) No dependence on row names.
    schema.0.iter().filter(|r| r.align > 0).map(|r| (r.offset, r.size, r.align)).collect()
}

/// Largest alignment unit of any zero-copy block of the stream (1 if none).
pub fn max_unit(schema: &Schema) -> usize {
    blocks_of(schema).iter().map(|b| b.2).max().unwrap_or(1).max(1)
}

// ---------------------------------------------------------------------------------------
// prepared documents (value + fault-free stream + writer-side schema + reference value)

use crate::place::Arena;
use epserde::deser::Deserialize;

/// Usable bytes of the placement arena (per thread).
pub const ARENA_CAP: usize = 1 << 21;

thread_local! {
    static ARENA: std::cell::RefCell<Arena> = std::cell::RefCell::new(Arena::new(ARENA_CAP));
}
pub fn with_arena<R>(f: impl FnOnce(&mut Arena) -> R) -> R {
    ARENA.with(|a| f(&mut a.borrow_mut()))
}

pub struct PrepDoc<D: Doc> {
    pub v: D,
    pub vi: u64,
    pub size: usize,
    /// fault-free stream
    pub b: Vec<u8>,
    pub schema: Schema,
    /// canonical value of the unfragmented full-copy read of `b` (the reference of every differential oracle;
    /// empty when `canon_full` is None)
    pub canon: Vec<u8>,
    /// the same, None if the fault-free full-copy read of `b` fails
    pub canon_full: Option<Vec<u8>>,
    /// canonical value of the ε-copy read of `b` at a page-aligned address, None if that read fails
    pub canon_eps: Option<Vec<u8>>,
}

/// Which fault-free references a check cannot do without.
#[derive(Clone, Copy, PartialEq, Eq)]
pub enum Need {
    /// only the stream and its schema; no fault-free read is executed at all (C11)
    StreamOnly,
    /// the stream, plus both fault-free reads as *optional* references (C10 judges each path against its own
    /// reference, if it has one)
    Stream,
    /// the stream, plus the fault-free ε-copy read as an optional reference; the full-copy read is not
    /// executed (C12)
    StreamEps,
    /// the unfragmented full-copy read (C14)
    Full,
    /// both reads, agreeing
    Both,
}

/// `None` when a fault-free control the check *needs* fails (always: serialization; `Need::Full`: the
/// full-copy read; `Need::Both`: both reads and their agreement). Those are failures of unclaimed
/// round-trip properties; what a check can judge without a reference it still judges.
pub fn prep_doc_need<D: Doc>(seed: u64, tag: &str, vi: u64, tier: Tier, need: Need) -> Option<PrepDoc<D>> {
    let (v, size) = gen_value::<D>(seed, tag, vi, tier);
    let mut b: Vec<u8> = Vec::new();
    let schema = match catch(|| v.serialize_with_schema(&mut b)) {
        Ok(Ok(s)) => s,
        _ => return None,
    };
    if b.len() + 8192 > ARENA_CAP {
        return None;
    }
    let canon_full = if matches!(need, Need::StreamOnly | Need::StreamEps) {
        None
    } else {
        match catch(|| D::deserialize_full(&mut std::io::Cursor::new(&b[..]))) {
            Ok(Ok(val)) => {
                let mut c = Vec::new();
                val.canon(&mut c);
                Some(c)
            }
            _ => None,
        }
    };
    // a check that does not use the ε-copy reference does not execute the ε-copy read either
    let canon_eps = if matches!(need, Need::StreamOnly | Need::Full) { None } else { with_arena(|a| {
        let s = a.place(&b, 0);
        match catch(|| D::deserialize_eps(s)) {
            Ok(Ok(e)) => {
                let mut c = Vec::new();
                D::canon_eps(&e, &mut c);
                Some(c)
            }
            _ => None,
        }
    }) };
    match need {
        Need::Stream | Need::StreamOnly | Need::StreamEps => {}
        Need::Full => {
            canon_full.as_ref()?;
        }
        Need::Both => {
            if canon_full.is_none() || canon_full != canon_eps {
                return None;
            }
        }
    }
    let canon = canon_full.clone().unwrap_or_default();
    Some(PrepDoc { v, vi, size, b, schema, canon, canon_full, canon_eps })
}

pub fn prep_doc<D: Doc>(seed: u64, tag: &str, vi: u64, tier: Tier) -> Option<PrepDoc<D>> {
    prep_doc_need::<D>(seed, tag, vi, tier, Need::Both)
}

/// Fault positions for a stream of `len` bytes (k in 0..len, or 0..=len with `incl_end`): all of them for
/// streams up to 24 KiB; for larger streams the boundaries where chunked I/O could go wrong (multiples of
/// 4 KiB, 8 KiB, 64 KiB, each -1/0/+1), the first and last 64 positions, and 128 seeded ones.
pub fn positions(len: usize, incl_end: bool, r: &mut Rng) -> Vec<usize> {
    let end = if incl_end { len + 1 } else { len };
    if len <= 24 * 1024 {
        return (0..end).collect();
    }
    let mut ks: Vec<usize> = Vec::new();
    ks.extend(0..64.min(end));
    ks.extend(end.saturating_sub(64)..end);
    for step in [4096usize, 8192, 65536] {
        let mut m = step;
        while m < end + 1 {
            for d in [-1i64, 0, 1] {
                let k = m as i64 + d;
                if k >= 0 && (k as usize) < end {
                    ks.push(k as usize);
                }
            }
            m += step;
        }
    }
    for _ in 0..128 {
        ks.push(r.below(end as u64) as usize);
    }
    ks.sort_unstable();
    ks.dedup();
    ks
}

/// Classes of schema rows, for "where did the fault land" probes: (offset, size, class)
/// class 1 = length prefix or tag, 2 = padding, 3 = zero-copy block.
pub fn row_classes(schema: &Schema) -> Vec<(usize, usize, u8)> {
    let mut rows = Vec::new();
    for r in &schema.0 {
        let class = if r.field == "PADDING" {
            2
        } else if r.field.ends_with(".zero") {
            3
        } else if r.field.ends_with(".len") || r.field.ends_with(".Tag") || r.field.ends_with(".tag") {
            1
        } else {
            continue;
        };
        rows.push((r.offset, r.size, class));
    }
    rows
}
pub fn position_probe(rows: &[(usize, usize, u8)], at: usize) -> Option<&'static str> {
    if at < 29 {
        return Some("header_fields");
    }
    for (off, size, class) in rows {
        if at >= *off && at < off + size {
            return Some(match class {
                1 => "len_or_tag",
                2 => "padding",
                _ => "zero_copy_block",
            });
        }
    }
    None
}

pub fn deser_err_name(e: &epserde::deser::Error) -> String {
    use epserde::deser::Error as E;
    match e {
        E::FileOpenError(_) => "FileOpenError".into(),
        E::ReadError => "ReadError".into(),
        E::EndiannessError => "EndiannessError".into(),
        E::AlignmentError => "AlignmentError".into(),
        E::MajorVersionMismatch(v) => format!("MajorVersionMismatch({})", v),
        E::MinorVersionMismatch(v) => format!("MinorVersionMismatch({})", v),
        E::UsizeSizeMismatch(v) => format!("UsizeSizeMismatch({})", v),
        E::MagicCookieError(v) => format!("MagicCookieError({:#x})", v),
        E::InvalidTag(v) => format!("InvalidTag({})", v),
        E::WrongTypeHash { ser_type_hash, self_type_hash, .. } => format!("WrongTypeHash(ser={:#x},self={:#x})", ser_type_hash, self_type_hash),
        E::WrongAlignHash { ser_align_hash, self_align_hash, .. } => format!("WrongAlignHash(ser={:#x},self={:#x})", ser_align_hash, self_align_hash),
        #[allow(unreachable_patterns)]
        other => format!("{:?}", other),
    }
}
