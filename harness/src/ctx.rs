//! Shared run context: counters, digests, bounded violation and sample lists, panic capture.

use crate::rng::Fnv;
use serde::Serialize;
use std::collections::{BTreeMap, HashSet};
use std::panic::{self, AssertUnwindSafe};
use std::sync::atomic::{AtomicBool, AtomicU64, Ordering};

#[derive(Clone, Debug, Serialize)]
pub struct Violation {
    /// stable class, e.g. "C13/source-freed"; the driver matches known findings against it
    pub class: String,
    pub detail: String,
}
impl Violation {
    pub fn new(class: impl Into<String>, detail: impl Into<String>) -> Violation {
        Violation { class: class.into(), detail: detail.into() }
    }
}

#[derive(Clone, Debug, Serialize)]
pub struct FoundViolation {
    pub class: String,
    pub detail: String,
    pub unit: u64,
    pub sub: u64,
    pub case: serde_json::Value,
}

#[derive(Clone, Copy, Debug, PartialEq, Eq)]
pub enum Tier {
    Quick,
    Thorough,
}

pub struct Ctx {
    pub prop: &'static str,
    pub seed: u64,
    pub tier: Tier,
    pub counters: BTreeMap<String, u64>,
    pub evaluations: u64,
    pub logical_steps: u64,
    /// digests of distinct non-trivial cases (rule is the property's)
    pub nontrivial: HashSet<u64>,
    /// secondary measure of reach (e.g. distinct schedules = op-kind/actor sequences), unioned by the driver
    pub aux: HashSet<u64>,
    /// commutative digest of (unit, sub, event digest): independent of the worker partition
    pub log_digest: u64,
    pub violations: Vec<FoundViolation>,
    pub violation_count: BTreeMap<String, u64>,
    pub samples: Vec<serde_json::Value>,
    pub cur_unit: u64,
    pub scratch: std::path::PathBuf,
    pub units_done: u64,
    pub docs_seen: HashSet<String>,
}

pub static CUR_UNIT: AtomicU64 = AtomicU64::new(0);
pub static CUR_SUB: AtomicU64 = AtomicU64::new(0);
pub static QUIET_PANICS: AtomicBool = AtomicBool::new(true);

impl Ctx {
    pub fn new(prop: &'static str, seed: u64, tier: Tier, scratch: std::path::PathBuf) -> Ctx {
        Ctx {
            prop,
            seed,
            tier,
            counters: BTreeMap::new(),
            evaluations: 0,
            logical_steps: 0,
            nontrivial: HashSet::new(),
            aux: HashSet::new(),
            log_digest: 0,
            violations: Vec::new(),
            violation_count: BTreeMap::new(),
            samples: Vec::new(),
            cur_unit: 0,
            scratch,
            units_done: 0,
            docs_seen: HashSet::new(),
        }
    }
    #[inline]
    pub fn count(&mut self, key: &str) {
        self.add(key, 1);
    }
    pub fn add(&mut self, key: &str, n: u64) {
        if let Some(v) = self.counters.get_mut(key) {
            *v += n;
        } else {
            self.counters.insert(key.to_string(), n);
        }
    }
    /// Announce the (unit, sub) about to execute: a crash handler reports exactly these.
    #[inline]
    pub fn begin(&mut self, unit: u64, sub: u64) {
        scrub_stack();
        self.cur_unit = unit;
        CUR_UNIT.store(unit, Ordering::Relaxed);
        CUR_SUB.store(sub, Ordering::Relaxed);
    }
    /// Record one finished execution.
    pub fn done(&mut self, unit: u64, sub: u64, event_digest: u64, nontrivial_digest: Option<u64>) {
        self.evaluations += 1;
        let mut h = Fnv::new();
        h.u64(unit).u64(sub).u64(event_digest);
        self.log_digest = self.log_digest.wrapping_add(h.get() | 1);
        if let Some(d) = nontrivial_digest {
            self.nontrivial.insert(d);
        }
    }
    pub fn violation(&mut self, v: Violation, unit: u64, sub: u64, case: impl FnOnce() -> serde_json::Value) {
        let n = self.violation_count.entry(v.class.clone()).or_insert(0);
        *n += 1;
        if *n <= 2 && self.violations.len() < 24 {
            self.violations.push(FoundViolation { class: v.class, detail: v.detail, unit, sub, case: case() });
        }
    }
    pub fn sample(&mut self, case: impl FnOnce() -> serde_json::Value) {
        if self.samples.len() < 4 {
            self.samples.push(case());
        }
    }
}

/// Fill the stack region the next execution will use with a fixed pattern, so that a library bug
/// that reads an uninitialised stack slot behaves the same in a batch and in a replay (the
/// tracking allocator does the same for the heap).
#[inline(never)]
pub fn scrub_stack() {
    let mut a = [0u8; 24 * 1024];
    unsafe { std::ptr::write_bytes(a.as_mut_ptr(), 0xA5, a.len()) };
    std::hint::black_box(&mut a);
}

thread_local! {
    static LAST_PANIC: std::cell::RefCell<String> = const { std::cell::RefCell::new(String::new()) };
}

pub fn install_panic_hook() {
    panic::set_hook(Box::new(|info| {
        let _g = crate::tracker::sim_enter();
        let msg = if let Some(s) = info.payload().downcast_ref::<&str>() {
            s.to_string()
        } else if let Some(s) = info.payload().downcast_ref::<String>() {
            s.clone()
        } else {
            "<non-string panic>".to_string()
        };
        let loc = info.location().map(|l| format!("{}:{}", l.file().rsplit('/').next().unwrap_or(""), l.line())).unwrap_or_default();
        if !QUIET_PANICS.load(Ordering::Relaxed) {
            eprintln!("panic: {} at {}", msg, loc);
        }
        LAST_PANIC.with(|p| *p.borrow_mut() = format!("{} @ {}", msg, loc));
    }));
}

/// Run `f`, catching a panic; returns Err(message @ file:line).
pub fn catch<R>(f: impl FnOnce() -> R) -> Result<R, String> {
    match panic::catch_unwind(AssertUnwindSafe(f)) {
        Ok(r) => Ok(r),
        Err(_) => Err(LAST_PANIC.with(|p| std::mem::take(&mut *p.borrow_mut()))),
    }
}

/// Shorten a panic message for use inside an event digest / detail (no addresses).
pub fn panic_class(msg: &str) -> String {
    // keep only the location: messages contain lengths that vary with the value
    match msg.rsplit_once(" @ ") {
        Some((_, loc)) => loc.to_string(),
        None => "unknown".to_string(),
    }
}
