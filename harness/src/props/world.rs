//! The simulated world of C08 / C09: a private scratch directory ("disk"), a pool of loaded
//! structures, three actor threads under the baton scheduler, the tracking allocator and the
//! mapping table. A case is an explicit list of operations; executing it is a pure function of the
//! list and the code under test.

use super::common::*;
use crate::canon::Part;
use crate::ctx::{catch, Tier, Violation};
use crate::docs::{self, BackKind, Backing, CaseObj, Doc, DocFn, Loader, ALL_DOCS, DROP_LOG};
use crate::rng::{Fnv, Rng};
use crate::sched::Sched;
use crate::{sys, tracker};
use epserde::deser::{self, Deserialize};
use epserde::ser::Serialize;
use std::path::PathBuf;
use std::sync::Arc;

#[derive(Clone, Debug, PartialEq, Eq, serde::Serialize, serde::Deserialize)]
pub enum Damage {
    /// load the intact file as another document type
    WrongType(String),
    HeaderFlip { byte: usize, bit: u8 },
    ReversedCookie,
    /// overwrite the `idx`-th tag of the stream with a value no variant writes
    Tag { idx: usize, val: u8 },
    /// keep only the first len*permille/1000 bytes
    Truncate(u32),
    Empty,
    /// the file is intact and loaded as its own type (used with an injected system-call failure)
    Intact,
    /// the path names a directory (stat and open succeed, read fails with EISDIR)
    Directory,
    /// the path does not exist
    Missing,
}

#[derive(Clone, Copy, Debug, PartialEq, Eq, serde::Serialize, serde::Deserialize)]
pub enum SysFault {
    /// the n-th mmap call of the loader fails with ENOMEM
    Mmap(u32),
    /// mprotect fails with EACCES
    Mprotect,
    /// the n-th read(2) of the loader fails with EIO (disk error)
    ReadEio(u32),
    /// the n-th read(2) of the loader returns 0: the file shrank between stat and read
    ReadEof(u32),
}

#[derive(Clone, Debug, PartialEq, Eq, serde::Serialize, serde::Deserialize)]
pub enum Op {
    Store { actor: u8, doc: String, vi: u64, over: Option<usize> },
    Load { actor: u8, file: usize, loader: Loader, flags: u32 },
    BadLoad { actor: u8, file: usize, loader: Loader, flags: u32, damage: Damage },
    SysFaultLoad { actor: u8, file: usize, loader: Loader, flags: u32, fault: SysFault },
    Verify { actor: u8, slot: usize },
    Move { actor: u8, slot: usize },
    SharedRead { a1: u8, a2: u8, slot: usize },
    Unlink { file: usize },
    Rewrite { file: usize },
    Drop { actor: u8, slot: usize },
    Escape { actor: u8, slot: usize },
    ReadEscaped { actor: u8, idx: usize },
}

#[derive(Clone, Debug, serde::Serialize, serde::Deserialize)]
pub struct Case {
    pub ops: Vec<Op>,
}

// ---------------------------------------------------------------------------------------

#[derive(Clone, Debug)]
pub struct Obs {
    pub canon: Vec<u8>,
    pub parts: Vec<Part>,
    pub backing: Backing,
    pub fnv: u64,
    pub tail_zero: bool,
    pub self_addr: usize,
    pub probe: Option<(u64, u64)>,
}

fn observe(obj: &dyn CaseObj, file_len: usize) -> Obs {
    let mut canon = Vec::new();
    obj.canon(&mut canon);
    let mut parts = Vec::new();
    obj.parts(&mut parts);
    let backing = obj.backing();
    let (fnv, tail_zero) = if backing.kind != BackKind::Owned && backing.len > 0 {
        let s = unsafe { std::slice::from_raw_parts(backing.addr as *const u8, backing.len) };
        (crate::rng::fnv(s), s.len() >= file_len && s[file_len.min(s.len())..].iter().all(|&b| b == 0))
    } else {
        (0, true)
    };
    Obs { canon, parts, backing, fnv, tail_zero, self_addr: obj.self_addr(), probe: obj.drop_probe() }
}

enum Holder {
    Boxed(Box<dyn CaseObj>),
    Shared(Arc<dyn CaseObj>),
}
impl Holder {
    fn get(&self) -> &dyn CaseObj {
        match self {
            Holder::Boxed(b) => &**b,
            Holder::Shared(a) => &**a,
        }
    }
}

struct FileEnt {
    path: PathBuf,
    doc: &'static str,
    bytes: Vec<u8>,
    canon_full: Vec<u8>,
    canon_eps: Vec<u8>,
    tags: Vec<(usize, usize)>,
    probe: Option<(u64, u64)>,
    unlinked: bool,
    /// content no longer equals `bytes` (rewritten)
    rewritten: bool,
}

struct SlotEnt {
    holder: Option<Holder>,
    file: usize,
    file_len: usize,
    loader: Loader,
    flags: u32,
    expect: Vec<u8>,
    obs0: Obs,
    probe: Option<(u64, u64)>,
    loaded_on: u8,
    op_loaded: usize,
}

struct Escaped {
    slot: usize,
    addr: usize,
    len: usize,
    via: &'static str,
    first: u8,
}

pub struct Info {
    pub digest: u64,
    pub steps: u64,
    pub counts: Vec<String>,
    pub nontrivial: bool,
    /// digest of the schedule: the sequence of (operation kind, actor(s), loader) without documents, values, flags
    pub schedule: u64,
}

pub fn schedule_signature(case: &Case) -> u64 {
    let mut h = Fnv::new();
    for op in &case.ops {
        match op {
            Op::Store { actor, over, .. } => h.u64(1).u64(*actor as u64).u64(over.is_some() as u64),
            Op::Load { actor, loader, .. } => h.u64(2).u64(*actor as u64).u64(*loader as u64),
            Op::BadLoad { actor, loader, damage, .. } => h.u64(3).u64(*actor as u64).u64(*loader as u64).str(match damage {
                Damage::WrongType(_) => "w",
                Damage::HeaderFlip { .. } => "h",
                Damage::ReversedCookie => "r",
                Damage::Tag { .. } => "t",
                Damage::Truncate(_) => "c",
                Damage::Empty => "e",
                Damage::Intact => "i",
                Damage::Directory => "d",
                Damage::Missing => "m",
            }),
            Op::SysFaultLoad { actor, loader, fault, .. } => h.u64(4).u64(*actor as u64).u64(*loader as u64).str(&format!("{:?}", fault)),
            Op::Verify { actor, .. } => h.u64(5).u64(*actor as u64),
            Op::Move { actor, .. } => h.u64(6).u64(*actor as u64),
            Op::SharedRead { a1, a2, .. } => h.u64(7).u64(*a1 as u64).u64(*a2 as u64),
            Op::Unlink { .. } => h.u64(8),
            Op::Rewrite { .. } => h.u64(9),
            Op::Drop { actor, .. } => h.u64(10).u64(*actor as u64),
            Op::Escape { actor, .. } => h.u64(11).u64(*actor as u64),
            Op::ReadEscaped { actor, .. } => h.u64(12).u64(*actor as u64),
        };
    }
    h.get()
}

thread_local! {
    static SCHED: std::cell::RefCell<Option<Sched>> = const { std::cell::RefCell::new(None) };
    static ENV: std::cell::RefCell<Option<Env>> = const { std::cell::RefCell::new(None) };
}

#[derive(Clone, Copy, Debug)]
pub struct Env {
    pub thp_anon: bool,
    pub thp_file: bool,
    /// the kernel / file system of the scratch directory can map a file read-only at all
    pub file_mmap: bool,
    pub anon_mmap: bool,
}
/// Ask the kernel directly (not through the library) whether MADV_HUGEPAGE is accepted.
fn preflight(scratch: &std::path::Path) -> Env {
    unsafe {
        let len = 1 << 16;
        let p = libc::syscall(libc::SYS_mmap, 0usize, len, libc::PROT_READ | libc::PROT_WRITE, libc::MAP_PRIVATE | libc::MAP_ANONYMOUS, -1i32, 0usize);
        let anon_mmap = p != -1;
        let thp_anon = p != -1 && libc::syscall(libc::SYS_madvise, p, len, libc::MADV_HUGEPAGE) == 0;
        if p != -1 {
            libc::syscall(libc::SYS_munmap, p, len);
        }
        let path = scratch.join("preflight.bin");
        let _ = std::fs::write(&path, vec![7u8; 5000]);
        let mut thp_file = false;
        let mut file_mmap = false;
        if let Ok(f) = std::fs::File::open(&path) {
            use std::os::fd::AsRawFd;
            let ps = libc::syscall(libc::SYS_mmap, 0usize, 5000usize, libc::PROT_READ, libc::MAP_SHARED, f.as_raw_fd(), 0usize);
            if ps != -1 {
                libc::syscall(libc::SYS_munmap, ps, 5000usize);
            }
            let p = libc::syscall(libc::SYS_mmap, 0usize, 5000usize, libc::PROT_READ, libc::MAP_PRIVATE, f.as_raw_fd(), 0usize);
            file_mmap = ps != -1 && p != -1;
            if p != -1 {
                thp_file = libc::syscall(libc::SYS_madvise, p, 5000usize, libc::MADV_HUGEPAGE) == 0;
                libc::syscall(libc::SYS_munmap, p, 5000usize);
            }
        }
        let _ = std::fs::remove_file(&path);
        Env { thp_anon, thp_file, file_mmap, anon_mmap }
    }
}
/// Can this environment run `loader` at all? (asked of the kernel directly, never of the library)
pub fn loader_supported(loader: Loader, flags: u32, scratch: &std::path::Path) -> bool {
    let e = env(scratch);
    match loader {
        Loader::Mmap => e.file_mmap && (flags & 1 == 0 || e.thp_file),
        Loader::LoadMmap => e.anon_mmap && (flags & 1 == 0 || e.thp_anon),
        _ => true,
    }
}
pub fn env(scratch: &std::path::Path) -> Env {
    ENV.with(|e| {
        let mut e = e.borrow_mut();
        if e.is_none() {
            *e = Some(preflight(scratch));
        }
        e.unwrap()
    })
}

fn with_sched<R>(f: impl FnOnce(&mut Sched) -> R) -> R {
    SCHED.with(|s| {
        let mut s = s.borrow_mut();
        if s.is_none() {
            *s = Some(Sched::new(3));
        }
        f(s.as_mut().unwrap())
    })
}

// --- typed operations, executed on an actor thread -------------------------------------------

struct StoreOut {
    control: Option<Vec<u8>>,
    result: Result<Result<(), String>, String>,
    file_bytes: Option<Vec<u8>>,
    canon_full: Option<Vec<u8>>,
    canon_eps: Option<Vec<u8>>,
    tags: Vec<(usize, usize)>,
    probe: Option<(u64, u64)>,
}
struct StoreFn {
    seed: u64,
    tier: Tier,
    vi: u64,
    path: PathBuf,
}
impl DocFn for StoreFn {
    type Out = StoreOut;
    fn call<D: Doc>(self) -> StoreOut {
        let (v, _) = gen_value::<D>(self.seed, "world", self.vi, self.tier);
        let mut b = Vec::new();
        let schema = catch(|| v.serialize_with_schema(&mut b)).ok().and_then(|r| r.ok());
        let mut out = StoreOut { control: None, result: Ok(Ok(())), file_bytes: None, canon_full: None, canon_eps: None, tags: vec![], probe: D::drop_probe(&v) };
        let Some(schema) = schema else {
            return out;
        };
        out.tags = schema.0.iter().filter(|r| (r.field.ends_with(".Tag") || r.field.ends_with(".tag")) && (r.size == 1 || r.size == 8)).map(|r| (r.offset, r.size)).collect();
        out.canon_full = catch(|| D::deserialize_full(&mut std::io::Cursor::new(&b[..]))).ok().and_then(|r| r.ok()).map(|val| {
            let mut c = Vec::new();
            val.canon(&mut c);
            c
        });
        out.canon_eps = with_arena(|a| {
            if b.len() + 256 > a.cap() {
                return None;
            }
            let s = a.place(&b, 0);
            catch(|| D::deserialize_eps(s)).ok().and_then(|r| r.ok()).map(|e| {
                let mut c = Vec::new();
                D::canon_eps(&e, &mut c);
                c
            })
        });
        out.control = Some(b);
        out.result = catch(|| tracker::in_lib(|| v.store(&self.path)).map_err(|e| format!("{:?}", e)));
        out.file_bytes = std::fs::read(&self.path).ok();
        drop(v);
        out
    }
}

struct LoadFn {
    loader: Loader,
    path: PathBuf,
    flags: u32,
    op: u16,
    fault: Option<SysFault>,
}
type LoadOut = Result<Result<Box<dyn CaseObj>, String>, String>;
impl DocFn for LoadFn {
    type Out = LoadOut;
    fn call<D: Doc>(self) -> LoadOut {
        crate::ctx::scrub_stack();
        tracker::set_op(self.op);
        let _l = sys::loader_enter(self.op);
        match self.fault {
            Some(SysFault::Mmap(n)) => sys::inject_mmap_failure(n),
            Some(SysFault::Mprotect) => sys::inject_mprotect_failure(),
            Some(SysFault::ReadEio(n)) => sys::inject_read_failure(n, false),
            Some(SysFault::ReadEof(n)) => sys::inject_read_failure(n, true),
            None => {}
        }
        catch(|| {
            tracker::in_lib(|| D::load(self.loader, &self.path, self.flags)).map_err(|e| {
                let _g = tracker::sim_enter();
                let name = match e.downcast_ref::<deser::Error>() {
                    Some(de) => deser_err_name(de),
                    None => format!("io/other: {}", e),
                };
                drop(e);
                name
            })
        })
    }
}

fn expected_advice(flags: u32) -> Vec<i32> {
    let mut v = Vec::new();
    if flags & 1 != 0 {
        v.push(libc::MADV_HUGEPAGE);
    }
    if flags & 2 != 0 {
        v.push(libc::MADV_SEQUENTIAL);
    }
    if flags & 4 != 0 {
        v.push(libc::MADV_RANDOM);
    }
    v.sort_unstable();
    v
}

fn round_up(n: usize, to: usize) -> usize {
    (n + to - 1) / to * to
}

// ---------------------------------------------------------------------------------------

pub struct WorldCfg<'a> {
    pub seed: u64,
    pub tier: Tier,
    pub scratch: &'a std::path::Path,
    /// "C08" or "C09": only violations of that property are reported
    pub prop: &'static str,
}

struct World<'a> {
    cfg: &'a WorldCfg<'a>,
    env: Env,
    files: Vec<FileEnt>,
    slots: Vec<SlotEnt>,
    escaped: Vec<Escaped>,
    nfiles_made: usize,
    h: Fnv,
    counts: Vec<String>,
    viol: Option<Violation>,
    /// (op index, loader name, cause) of every failing load, for leak attribution
    failed_loads: Vec<(usize, String, String)>,
    nontrivial: bool,
}

impl<'a> World<'a> {
    fn v(&mut self, prop: &str, class: &str, detail: String) {
        if prop == self.cfg.prop {
            if self.viol.is_none() {
                self.viol = Some(Violation::new(format!("{}/{}", prop, class), detail));
            }
        } else {
            self.counts.push(format!("other_property.{}/{}", prop, class));
        }
    }
    fn live_slots(&self) -> Vec<usize> {
        (0..self.slots.len()).filter(|&i| self.slots[i].holder.is_some()).collect()
    }
    fn pick_slot(&self, raw: usize) -> Option<usize> {
        let l = self.live_slots();
        if l.is_empty() {
            None
        } else {
            Some(l[raw % l.len()])
        }
    }
    fn pick_file(&self, raw: usize, need_loadable: bool) -> Option<usize> {
        let l: Vec<usize> = (0..self.files.len()).filter(|&i| !need_loadable || (!self.files[i].unlinked && !self.files[i].rewritten)).collect();
        if l.is_empty() {
            None
        } else {
            Some(l[raw % l.len()])
        }
    }

    fn flags_supported(&self, loader: Loader, flags: u32) -> bool {
        if loader == Loader::Mmap && !self.env.file_mmap || loader == Loader::LoadMmap && !self.env.anon_mmap {
            return false;
        }
        if flags & 1 == 0 {
            return true;
        }
        match loader {
            Loader::LoadMmap => self.env.thp_anon,
            Loader::Mmap => self.env.thp_file,
            _ => true,
        }
    }

    fn check_obs(&mut self, i: usize, si: usize, o: &Obs, what: &str) {
        let s = &self.slots[si];
        let expect = s.expect.clone();
        let (loader, flags, file_len) = (s.loader, s.flags, s.file_len);
        let obs0 = s.obs0.clone();
        let doc = self.files[s.file].doc;
        let ctx = format!("op#{} {} of {} loaded by {}(flags={}) from a {}-byte file", i, what, doc, loader.name(), flags, file_len);
        if o.canon != expect {
            self.v("C08", "value-differs", format!("{}: the structure differs from deserializing the file's bytes", ctx));
        }
        let b = o.backing;
        match loader {
            Loader::Full => {}
            Loader::Mem => {
                if b.kind != BackKind::Heap {
                    self.v("C08", "region-kind", format!("{}: backing is {:?}, expected heap", ctx, b.kind));
                }
                let al = std::mem::align_of::<epserde::deser::MemoryAlignment>();
                if b.addr % al != 0 {
                    self.v("C08", "region-misaligned", format!("{}: backing region is not {}-byte aligned", ctx, al));
                }
                if b.len < file_len {
                    self.v("C08", "region-length", format!("{}: backing region has {} bytes, less than the {}-byte file", ctx, b.len, file_len));
                }
                if !o.tail_zero {
                    self.v("C08", "tail-not-zero", format!("{}: bytes between the end of the file and the rounded-up length are not all zero", ctx));
                }
            }
            Loader::LoadMmap => {
                if b.kind != BackKind::Map {
                    self.v("C08", "region-kind", format!("{}: backing is {:?}, expected a mapping", ctx, b.kind));
                }
                let al = std::mem::align_of::<epserde::deser::MemoryAlignment>();
                if b.addr % al != 0 {
                    self.v("C08", "region-misaligned", format!("{}: mapping is not {}-byte aligned", ctx, al));
                }
                if b.len < file_len {
                    self.v("C08", "region-length", format!("{}: mapping has {} bytes, less than the {}-byte file", ctx, b.len, file_len));
                }
                if !o.tail_zero {
                    self.v("C08", "tail-not-zero", format!("{}: bytes between the end of the file and the rounded-up length are not all zero", ctx));
                }
            }
            Loader::Mmap => {
                if b.kind != BackKind::Map {
                    self.v("C08", "region-kind", format!("{}: backing is {:?}, expected a mapping", ctx, b.kind));
                }
                let al = std::mem::align_of::<epserde::deser::MemoryAlignment>();
                if b.addr % al != 0 {
                    self.v("C08", "region-misaligned", format!("{}: mapping is not {}-byte aligned", ctx, al));
                }
                // the statement only asks that borrowed parts lie inside the region; a mapping longer than
                // the file (reading past the end of a truncated file) is C11's concern, not C08's
                if b.len < file_len {
                    self.v("C08", "region-length", format!("{}: mapping has {} bytes, less than the file length {}", ctx, b.len, file_len));
                }
                if b.len != file_len {
                    self.counts.push("note.mmap_length_differs_from_file_length".into());
                }
            }
        }
        for p in &o.parts {
            if p.len > 0 && !(p.addr >= b.addr && p.addr + p.len <= b.addr + b.len) {
                self.v("C08", "part-outside-region", format!("{}: a borrowed part of {} bytes lies outside the backing region", ctx, p.len));
            }
            if p.align > 1 && p.addr % p.align != 0 {
                self.v("C08", "part-misaligned", format!("{}: a borrowed part is not aligned to {}", ctx, p.align));
            }
        }
        // against the observation made right after the load
        if o.backing.addr != obs0.backing.addr || o.backing.len != obs0.backing.len {
            self.v("C08", "region-moved", format!("{}: the backing region changed address or length since the load", ctx));
        }
        if o.parts != obs0.parts {
            self.v("C08", "parts-moved", format!("{}: borrowed parts changed address since the load (they must point into the backing region, not into the case)", ctx));
        }
        if o.fnv != obs0.fnv {
            self.v("C09", "region-changed", format!("{}: the contents of the backing region changed while the structure was alive", ctx));
        }
        // the region must still be allocated
        match b.kind {
            // the region must lie inside a live heap block / a live mapping (it need not *be* one)
            BackKind::Heap => match tracker::block_of(b.addr) {
                Some((_, size, true)) if size >= b.len => {}
                _ => {
                    if tracker::live_block_containing(b.addr, b.len).is_none() {
                        self.v("C09", "early-release", format!("{}: the backing region is not inside any live heap block", ctx));
                    }
                }
            },
            BackKind::Map => match sys::mapping_at(b.addr) {
                Some(m) if m.addr <= b.addr && b.addr + b.len <= m.addr + m.len => {}
                other => self.v("C09", "early-release", format!("{}: the backing region is not inside a live mapping ({:?})", ctx, other.map(|m| m.len))),
            },
            BackKind::Owned => {}
        }
    }

    fn check_disjoint(&mut self, i: usize) {
        let regs: Vec<(usize, usize, usize)> = self.live_slots().into_iter().filter(|&s| self.slots[s].obs0.backing.kind != BackKind::Owned).map(|s| (self.slots[s].obs0.backing.addr, self.slots[s].obs0.backing.len, s)).collect();
        for a in 0..regs.len() {
            for b in a + 1..regs.len() {
                let (a0, al, _) = regs[a];
                let (b0, bl, _) = regs[b];
                if al > 0 && bl > 0 && a0 < b0 + bl && b0 < a0 + al {
                    self.v("C08", "regions-overlap", format!("op#{}: the backing regions of two live structures overlap", i));
                }
            }
        }
    }

    fn do_store(&mut self, i: usize, actor: u8, doc: &str, vi: u64, over: Option<usize>) {
        let Some(&docname) = ALL_DOCS.iter().find(|d| **d == doc) else { return };
        // target path: a fresh file, or an existing (loadable or not) file that no file-mapped structure uses
        let mut target: Option<usize> = None;
        if let Some(raw) = over {
            if let Some(fi) = self.pick_file(raw, false) {
                let mapped = self.live_slots().iter().any(|&s| self.slots[s].file == fi && self.slots[s].loader == Loader::Mmap);
                if !mapped && !self.files[fi].unlinked {
                    target = Some(fi);
                }
            }
        }
        let path = match target {
            Some(fi) => {
                // make the existing file longer first, so that a store that does not truncate shows
                let _ = std::fs::write(&self.files[fi].path, vec![0xEE; self.files[fi].bytes.len() + 333]);
                self.files[fi].path.clone()
            }
            None => {
                self.nfiles_made += 1;
                self.cfg.scratch.join(format!("f{}.bin", self.nfiles_made))
            }
        };
        let (seed, tier) = (self.cfg.seed, self.cfg.tier);
        let p2 = path.clone();
        let d2 = docname;
        let out = with_sched(|s| s.run_on(actor as usize, move || docs::dispatch(d2, StoreFn { seed, tier, vi, path: p2 }).unwrap()));
        // the generator value's own drop logged a probe entry: not ours
        if let Ok(mut l) = DROP_LOG.lock() {
            l.clear();
        }
        // reference of every loader (load_full included): ε-copy deserialization of the file's bytes
        let (Some(b), Some(ce)) = (out.control, out.canon_eps) else {
            self.counts.push("control_failures".into());
            let _ = std::fs::remove_file(&path);
            if let Some(fi) = target {
                // the existing file was overwritten with junk and is now gone
                self.files[fi].unlinked = true;
            }
            return;
        };
        let cf = out.canon_full.unwrap_or_else(|| ce.clone());
        let _ = &cf;
        self.h.str("store").u64(b.len() as u64);
        match &out.result {
            Ok(Ok(())) => {}
            Ok(Err(e)) => self.v("C08", "store-failed", format!("op#{} store of {} (value {}) failed without any fault: {}", i, doc, vi, e)),
            Err(p) => self.v("C08", "store-failed", format!("op#{} store of {} (value {}) panicked: {}", i, doc, vi, p)),
        }
        if out.file_bytes.as_deref() != Some(&b[..]) {
            self.v("C08", "store-bytes", format!("op#{} store of {} (value {}){}: the file holds {} bytes that differ from the {}-byte in-memory serialization", i, doc, vi, if target.is_some() { " over an existing longer file" } else { "" }, out.file_bytes.as_ref().map(|f| f.len()).unwrap_or(0), b.len()));
        }
        if target.is_some() {
            self.counts.push("probe.store_over_longer_file".into());
        }
        self.counts.push(format!("len_mod_64.{}", b.len() % 64));
        match b.len() % 4096 {
            0 => self.counts.push("probe.file_len_multiple_of_page".into()),
            1 => self.counts.push("probe.file_len_page_plus_one".into()),
            4095 => self.counts.push("probe.file_len_page_minus_one".into()),
            _ => {}
        }
        if b.len() > 8192 {
            self.counts.push("probe.file_larger_than_8KiB".into());
        }
        let ent = FileEnt { path, doc: docname, bytes: b, canon_full: cf, canon_eps: ce, tags: out.tags, probe: out.probe, unlinked: false, rewritten: false };
        match target {
            Some(fi) => self.files[fi] = ent,
            None => self.files.push(ent),
        }
    }

    fn run_load(&mut self, actor: u8, as_doc: &'static str, loader: Loader, path: PathBuf, flags: u32, op: usize, fault: Option<SysFault>) -> LoadOut {
        with_sched(|s| s.run_on(actor as usize, move || docs::dispatch(as_doc, LoadFn { loader, path, flags, op: op as u16, fault }).unwrap()))
    }

    fn do_load(&mut self, i: usize, actor: u8, file: usize, loader: Loader, flags: u32) {
        if !Loader::AVAILABLE.contains(&loader) {
            return;
        }
        let Some(fi) = self.pick_file(file, true) else { return };
        let flags = flags & 7;
        if !self.flags_supported(loader, flags) {
            self.counts.push("env.thp_unsupported_skipped".into());
            return;
        }
        let doc = self.files[fi].doc;
        let path = self.files[fi].path.clone();
        let file_len = self.files[fi].bytes.len();
        let r = self.run_load(actor, doc, loader, path, flags, i, None);
        self.h.str("load").str(loader.name()).u64(flags as u64);
        let obj = match r {
            Ok(Ok(o)) => o,
            Ok(Err(e)) => {
                self.v("C08", "load-failed", format!("op#{} {}(flags={}) of a valid {}-byte {} file failed: {}", i, loader.name(), flags, file_len, doc, e));
                self.failed_loads.push((i, loader.name().into(), "valid-file".into()));
                return;
            }
            Err(p) => {
                self.v("C08", "load-failed", format!("op#{} {}(flags={}) of a valid {}-byte {} file panicked: {}", i, loader.name(), flags, file_len, doc, p));
                self.failed_loads.push((i, loader.name().into(), "valid-file-panic".into()));
                return;
            }
        };
        // first observation, on the loading actor
        let (obj, obs) = with_sched(|s| {
            s.run_on(actor as usize, move || {
                let o = observe(&*obj, file_len);
                (obj, o)
            })
        });
        let expect = self.files[fi].canon_eps.clone();
        self.slots.push(SlotEnt { holder: Some(Holder::Boxed(obj)), file: fi, file_len, loader, flags, expect, obs0: obs.clone(), probe: obs.probe, loaded_on: actor, op_loaded: i });
        let si = self.slots.len() - 1;
        self.check_obs(i, si, &obs, "first read");
        // advice given to the kernel = translation of the flags
        if obs.backing.kind == BackKind::Map {
            if let Some(m) = sys::mapping_at(obs.backing.addr) {
                let mut got: Vec<i32> = m.advice[..m.nadvice as usize].to_vec();
                got.sort_unstable();
                if got != expected_advice(flags) {
                    // the flags only select kernel hints; the statement constrains the loaded structure, not the
                    // hints: reported as a note in the evidence (and a WARNING line), never as a violation
                    self.counts.push("note.madvise_advice_differs_from_flags".into());
                }
                self.counts.push(format!("advice_checked.{}", flags));
            }
        }
        self.check_disjoint(i);
        self.counts.push(format!("load.{}.flags{}", loader.name(), flags));
    }

    fn do_bad_load(&mut self, i: usize, actor: u8, file: usize, loader: Loader, flags: u32, damage: &Damage, fault: Option<SysFault>) {
        if !Loader::AVAILABLE.contains(&loader) {
            return;
        }
        let Some(fi) = self.pick_file(file, true) else { return };
        let flags = flags & 7;
        if !self.flags_supported(loader, flags) {
            return;
        }
        let f = &self.files[fi];
        let mut bytes = f.bytes.clone();
        let mut as_doc = f.doc;
        let cause: String;
        match damage {
            Damage::WrongType(d) => {
                let Some(&dn) = ALL_DOCS.iter().find(|x| **x == d.as_str()) else { return };
                if dn == f.doc {
                    return;
                }
                as_doc = dn;
                cause = "wrong-type".into();
            }
            Damage::HeaderFlip { byte, bit } => {
                if *byte >= 29 || *bit >= 8 || bytes.len() < 29 {
                    return;
                }
                bytes[*byte] ^= 1 << bit;
                cause = "header-corruption".into();
            }
            Damage::ReversedCookie => {
                bytes[0..8].reverse();
                cause = "header-corruption".into();
            }
            Damage::Tag { idx, val } => {
                if f.tags.is_empty() || *val < 16 {
                    return;
                }
                let (off, size) = f.tags[idx % f.tags.len()];
                for k in 0..size {
                    bytes[off + k] = if k == 0 { *val } else { 0 };
                }
                cause = "foreign-tag".into();
            }
            Damage::Truncate(pm) => {
                let k = bytes.len() * (*pm as usize % 1000) / 1000;
                bytes.truncate(k);
                cause = "truncated".into();
            }
            Damage::Empty => {
                bytes.clear();
                cause = "empty-file".into();
            }
            Damage::Intact => {
                cause = "intact".into();
            }
            Damage::Directory => {
                cause = "path-is-a-directory".into();
            }
            Damage::Missing => {
                cause = "missing-file".into();
            }
        }
        let cause = if fault.is_some() { format!("syscall-failure") } else { cause };
        let path = match damage {
            Damage::Directory => self.cfg.scratch.to_path_buf(),
            Damage::Missing => self.cfg.scratch.join("no-such-file.bin"),
            _ if bytes == f.bytes => f.path.clone(),
            _ => self.cfg.scratch.join("damaged.bin"),
        };
        if bytes != f.bytes {
            if std::fs::write(&path, &bytes).is_err() {
                return;
            }
        }
        let file_len = bytes.len();
        let r = self.run_load(actor, as_doc, loader, path, flags, i, fault);
        let fired = sys::take_faults_fired();
        if fault.is_some() {
            if fired == 0 {
                self.counts.push("fault.syscall_not_reached".into());
            } else {
                self.counts.push(format!("fault.{}", match fault { Some(SysFault::Mmap(_)) => "mmap_ENOMEM", Some(SysFault::ReadEio(_)) => "read_EIO", Some(SysFault::ReadEof(_)) => "read_EOF_file_shrank", _ => "mprotect_EACCES" }));
            }
        }
        self.h.str("badload").str(loader.name()).str(&cause);
        self.nontrivial = true;
        match r {
            Ok(Ok(obj)) => {
                if fault.is_some() && fired > 0 {
                    // not a C09 matter (nothing in the statement forbids a loader to survive a transient fault)
                    self.counts.push("load_ok_despite_syscall_fault".into());
                }
                // a damaged file that still loads (lower minor version, zero-extended truncation): it is a
                // structure like any other; release it right away, on another actor
                self.counts.push(format!("badload_ok.{}.{}", loader.name(), cause));
                let b = with_sched(|s| {
                    s.run_on(actor as usize + 1, move || {
                        let o = observe(&*obj, file_len);
                        drop(obj);
                        o.backing
                    })
                });
                self.check_released(i, b, "a structure loaded from a damaged file");
            }
            Ok(Err(e)) => {
                self.counts.push(format!("fault.load_failed.{}", e.split('(').next().unwrap_or("?").split(':').next().unwrap_or("?")));
                self.counts.push(format!("badload.{}.{}", loader.name(), cause));
                self.failed_loads.push((i, loader.name().into(), cause));
            }
            Err(_p) => {
                self.counts.push(format!("fault.load_panicked"));
                self.counts.push(format!("badload.{}.{}", loader.name(), cause));
                self.failed_loads.push((i, loader.name().into(), format!("{}-panic", cause)));
            }
        }
    }

    fn check_released(&mut self, i: usize, b: Backing, what: &str) {
        match b.kind {
            BackKind::Heap => {
                if let Some((_, _, true)) = tracker::block_of(b.addr) {
                    self.v("C09", "not-released", format!("op#{}: the heap block backing {} is still allocated after its owner was dropped", i, what));
                } else if tracker::block_of(b.addr).is_none() && tracker::live_block_containing(b.addr, b.len.max(1)).is_some() {
                    self.v("C09", "not-released", format!("op#{}: the heap block containing the region backing {} is still allocated after its owner was dropped", i, what));
                }
            }
            BackKind::Map => {
                if sys::mapping_at(b.addr).is_some() {
                    self.v("C09", "not-released", format!("op#{}: the mapping backing {} is still mapped after its owner was dropped", i, what));
                }
            }
            BackKind::Owned => {}
        }
    }

    fn with_obj<R: Send + 'static>(&mut self, actor: u8, si: usize, f: impl FnOnce(&dyn CaseObj) -> R + Send + 'static) -> Option<R> {
        let h = self.slots[si].holder.take()?;
        let (h, r) = with_sched(|s| {
            s.run_on(actor as usize, move || {
                let r = f(h.get());
                (h, r)
            })
        });
        self.slots[si].holder = Some(h);
        Some(r)
    }

    fn do_verify(&mut self, i: usize, actor: u8, slot: usize, what: &str) {
        let Some(si) = self.pick_slot(slot) else { return };
        let file_len = self.slots[si].file_len;
        let Some(obs) = self.with_obj(actor, si, move |o| observe(o, file_len)) else { return };
        if actor != self.slots[si].loaded_on {
            self.counts.push("probe.read_on_other_thread".into());
        }
        let f = &self.files[self.slots[si].file];
        if f.unlinked {
            self.counts.push("probe.read_after_unlink".into());
        }
        if f.rewritten {
            self.counts.push("probe.read_after_file_rewritten".into());
        }
        self.h.str("verify").u64(obs.canon.len() as u64);
        self.check_obs(i, si, &obs, what);
    }

    fn do_move(&mut self, i: usize, actor: u8, slot: usize) {
        let Some(si) = self.pick_slot(slot) else { return };
        let Some(h) = self.slots[si].holder.take() else { return };
        let Holder::Boxed(b) = h else {
            self.slots[si].holder = Some(h);
            return;
        };
        let file_len = self.slots[si].file_len;
        let (nb, before, obs) = with_sched(|s| {
            s.run_on(actor as usize, move || {
                let before = b.self_addr();
                let nb = b.relocate();
                let o = observe(&*nb, file_len);
                (nb, before, o)
            })
        });
        self.slots[si].holder = Some(Holder::Boxed(nb));
        if obs.self_addr != before {
            self.counts.push("probe.case_moved_to_new_address".into());
        }
        self.h.str("move");
        self.check_obs(i, si, &obs, "read after the case was moved / re-boxed");
    }

    fn do_shared_read(&mut self, i: usize, a1: u8, a2: u8, slot: usize) {
        let Some(si) = self.pick_slot(slot) else { return };
        let Some(h) = self.slots[si].holder.take() else { return };
        let arc: Arc<dyn CaseObj> = match h {
            Holder::Boxed(b) => Arc::from(b),
            Holder::Shared(a) => a,
        };
        let file_len = self.slots[si].file_len;
        let c1 = arc.clone();
        let c2 = arc.clone();
        // two actors read through shared references while a third owner (the pool) exists
        let o1 = with_sched(|s| {
            s.run_on(a1 as usize, move || {
                let o = observe(&*c1, file_len);
                drop(c1);
                o
            })
        });
        let o2 = with_sched(|s| {
            s.run_on(a2 as usize, move || {
                let o = observe(&*c2, file_len);
                drop(c2);
                o
            })
        });
        self.slots[si].holder = Some(Holder::Shared(arc));
        self.counts.push("probe.shared_read_two_threads".into());
        self.h.str("shared");
        self.check_obs(i, si, &o1, "shared read (first reader)");
        self.check_obs(i, si, &o2, "shared read (second reader)");
    }

    fn do_drop(&mut self, i: usize, actor: u8, slot: usize) {
        let Some(si) = self.pick_slot(slot) else { return };
        let Some(h) = self.slots[si].holder.take() else { return };
        let b = self.slots[si].obs0.backing;
        if let Ok(mut l) = DROP_LOG.lock() {
            l.clear();
        }
        with_sched(|s| s.run_on(actor as usize, move || drop(h)));
        if actor != self.slots[si].loaded_on {
            self.counts.push("probe.dropped_on_other_thread".into());
            self.nontrivial = true;
        }
        self.h.str("drop");
        self.check_released(i, b, "a loaded structure");
        if let Some((tag, sum)) = self.slots[si].probe {
            let log: Vec<(u64, u64)> = DROP_LOG.lock().map(|l| l.clone()).unwrap_or_default();
            match log.iter().find(|(t, _)| *t == tag) {
                Some((_, s)) if *s == sum => self.counts.push("probe.drop_probe_saw_intact_data".into()),
                Some(_) => self.v("C09", "early-release", format!("op#{}: the structure's own Drop saw different data than was stored: its backing memory was released or changed before the structure was dropped", i)),
                None => self.v("C09", "structure-not-dropped", format!("op#{}: dropping the case did not drop the structure inside it", i)),
            }
        }
        // the allocator may hand the same address to a later load: note when that happens
    }

    fn do_escape(&mut self, _i: usize, actor: u8, slot: usize) {
        let Some(si) = self.pick_slot(slot) else { return };
        let Some(Some((addr, len, via))) = self.with_obj(actor, si, |o| o.escape()) else { return };
        if len == 0 {
            return;
        }
        let first = unsafe { *(addr as *const u8) };
        self.escaped.push(Escaped { slot: si, addr, len, via, first });
        self.counts.push(format!("probe.escaped_static_ref.{}", via));
        self.h.str("escape");
    }

    fn do_read_escaped(&mut self, i: usize, _actor: u8, idx: usize) {
        if self.escaped.is_empty() {
            return;
        }
        let e = &self.escaped[idx % self.escaped.len()];
        let (slot, addr, len, via, first) = (e.slot, e.addr, e.len, e.via, e.first);
        let s = &self.slots[slot];
        let b = s.obs0.backing;
        self.h.str("readesc");
        if s.holder.is_some() {
            // owner alive: a legitimate read
            let now = unsafe { *(addr as *const u8) };
            if now != first {
                self.v("C09", "region-changed", format!("op#{}: data behind a reference obtained through {} changed while the owner is alive", i, via));
            }
            return;
        }
        // the history says the owner was dropped: the region is released; a safe program still holds
        // (and may read) the 'static reference. No wild pointer is dereferenced here unless the block is
        // provably still in the tracker's quarantine.
        self.nontrivial = true;
        let evidence = match b.kind {
            BackKind::Heap => match tracker::block_of(b.addr) {
                Some((_, _, false)) => {
                    let now = unsafe { *(addr as *const u8) };
                    format!("the heap block is freed (in quarantine); the read returns {:#04x} (poison is 0xdd), it was {:#04x}", now, first)
                }
                other => format!("the heap block is no longer live ({:?})", other),
            },
            BackKind::Map => "the mapping has been unmapped; a read would fault".to_string(),
            BackKind::Owned => return,
        };
        self.v("C09", &format!("escape/{}/read-after-drop", via), format!("op#{}: safe code copied a &'static [_] of {} bytes out of a MemCase via {}, dropped the case, and can still read through the reference: {}", i, len, via, evidence));
    }

    fn exec_op(&mut self, i: usize, op: &Op) {
        match op {
            Op::Store { actor, doc, vi, over } => self.do_store(i, *actor, doc, *vi, *over),
            Op::Load { actor, file, loader, flags } => self.do_load(i, *actor, *file, *loader, *flags),
            Op::BadLoad { actor, file, loader, flags, damage } => self.do_bad_load(i, *actor, *file, *loader, *flags, damage, None),
            Op::SysFaultLoad { actor, file, loader, flags, fault } => {
                // an intact file loaded as the right type, with one failing system call
                self.do_bad_load(i, *actor, *file, *loader, *flags, &Damage::Intact, Some(*fault))
            }
            Op::Verify { actor, slot } => self.do_verify(i, *actor, *slot, "read"),
            Op::Move { actor, slot } => self.do_move(i, *actor, *slot),
            Op::SharedRead { a1, a2, slot } => self.do_shared_read(i, *a1, *a2, *slot),
            Op::Unlink { file } => {
                if let Some(fi) = self.pick_file(*file, false) {
                    if !self.files[fi].unlinked {
                        let _ = std::fs::remove_file(&self.files[fi].path);
                        self.files[fi].unlinked = true;
                        self.h.str("unlink");
                    }
                }
            }
            Op::Rewrite { file } => {
                if let Some(fi) = self.pick_file(*file, false) {
                    let mapped = self.live_slots().iter().any(|&s| self.slots[s].file == fi && self.slots[s].loader == Loader::Mmap);
                    if !mapped && !self.files[fi].unlinked {
                        let n = self.files[fi].bytes.len() / 2 + 7;
                        let _ = std::fs::write(&self.files[fi].path, vec![0x77u8; n]);
                        self.files[fi].rewritten = true;
                        self.h.str("rewrite");
                    }
                }
            }
            Op::Drop { actor, slot } => self.do_drop(i, *actor, *slot),
            Op::Escape { actor, slot } => self.do_escape(i, *actor, *slot),
            Op::ReadEscaped { actor, idx } => self.do_read_escaped(i, *actor, *idx),
        }
    }
}

/// Execute a case. A leak is reported only if it is *repeatable*: memory the library allocates once and
/// keeps (a lazily initialised cache) is not backing memory and not a leak of a failed load; a second
/// execution of the same case in the same process leaks nothing in that situation.
pub fn execute(cfg: &WorldCfg, case: &Case) -> Result<Info, Violation> {
    match execute_once(cfg, case) {
        Err(v) if v.class.starts_with("C09/leak/") => match execute_once(cfg, case) {
            Err(v2) if v2.class.starts_with("C09/leak/") => Err(v2),
            Err(other) => Err(other),
            Ok(info) => {
                let mut info = info;
                info.counts.push("note.one_time_allocation_inside_a_library_call_not_repeated".into());
                Ok(info)
            }
        },
        r => r,
    }
}

/// One execution. Always cleans up (drops every structure, removes files, reaps leaked mappings).
fn execute_once(cfg: &WorldCfg, case: &Case) -> Result<Info, Violation> {
    let env = env(cfg.scratch);
    let _ = sys::take_violations();
    let _ = sys::take_faults_fired();
    let maps_before = sys::live_count();
    tracker::arm();
    let mut w = World { cfg, env, files: Vec::new(), slots: Vec::new(), escaped: Vec::new(), nfiles_made: 0, h: Fnv::new(), counts: Vec::new(), viol: None, failed_loads: Vec::new(), nontrivial: false };
    let mut steps = 0u64;
    for (i, op) in case.ops.iter().enumerate() {
        if w.viol.is_some() {
            break;
        }
        steps += 1;
        w.exec_op(i, op);
    }
    // tear down: drop whatever is still alive (on actor 0), in slot order
    let n = case.ops.len();
    for si in 0..w.slots.len() {
        if let Some(h) = w.slots[si].holder.take() {
            let b = w.slots[si].obs0.backing;
            with_sched(|s| s.run_on(0, move || drop(h)));
            if w.viol.is_none() {
                w.check_released(n, b, "a loaded structure (dropped at the end of the run)");
            }
        }
    }
    if let Ok(mut l) = DROP_LOG.lock() {
        l.clear();
    }
    for f in &w.files {
        if !f.unlinked {
            let _ = std::fs::remove_file(&f.path);
        }
    }
    let _ = std::fs::remove_file(cfg.scratch.join("damaged.bin"));
    let failed = std::mem::take(&mut w.failed_loads);
    let mut viol = w.viol.take();
    let counts = std::mem::take(&mut w.counts);
    let digest = w.h.get();
    let nontrivial = w.nontrivial;
    let prop = cfg.prop;
    drop(w);
    // conservation
    let leaked_maps = sys::live_mappings();
    let maps_after = leaked_maps.len();
    let mviols = sys::take_violations();
    let rep = tracker::disarm();
    let reaped = if maps_after > maps_before { sys::reap_leaked() } else { 0 };
    let _ = reaped;
    if prop == "C09" && viol.is_none() {
        if let Some(v) = rep.viols.first() {
            viol = Some(Violation::new(format!("C09/{}", v.kind.name()), format!("allocator saw {} of a {}-byte block (requested size {}, align {} vs {}){}", v.kind.name(), v.size, v.req_size, v.align, v.req_align, if v.in_lib { " inside a library call" } else { "" })));
        } else if let Some((_, len)) = mviols.iter().find(|(k, _)| *k == sys::MViol::DoubleUnmap) {
            viol = Some(Violation::new("C09/double-release", format!("a loader mapping of {} bytes was unmapped a second time", len)));
        } else if rep.lib_live_blocks > 0 || maps_after > maps_before {
            // attribute the leak to the operation that created the largest leaked block / mapping
            let op = leaked_maps.first().map(|m| m.op as usize).or(rep.leaked.first().map(|l| l.1 as usize)).unwrap_or(usize::MAX);
            let (loader, cause) = failed.iter().find(|f| f.0 == op).map(|f| (f.1.clone(), f.2.clone())).unwrap_or(("?".into(), "successful-path".into()));
            let what = format!("{} heap block(s) / {} bytes made by the library and {} loader mapping(s) are still live after every structure and error was dropped; largest: {:?} (bytes, op#)", rep.lib_live_blocks, rep.lib_live_bytes, maps_after - maps_before, rep.leaked.first());
            viol = Some(Violation::new(format!("C09/leak/{}/{}", loader, cause), format!("op#{} {} ({}): {}", op, loader, cause, what)));
        }
    }
    match viol {
        Some(v) => Err(v),
        None => Ok(Info { digest, steps, counts, nontrivial, schedule: schedule_signature(case) }),
    }
}

// ---------------------------------------------------------------------------------------
// generation

const WORLD_DOCS: &[&str] = &[
    "PaddedVecU64", "PaddedZ32", "PaddedStr", "DropProbeD", "VecU64", "BoxU32", "VecZ32", "PersonD", "DeepA", "DeepB", "DeepC", "VecString", "Str", "VecZeroP", "OptVecU64", "EnumDVec", "VecVecU32", "ArrString", "U64",
    "VecU8", "VecU128", "IncrA", "IncrB", "IncrD", "VecZ64", "DeepD", "HolderA", "HolderB", "HolderD", "HolderE", "Z64D", "ArrVecString", "ArrOptVec", "BoxVecString", "VecVecString", "OptVecString", "BoundVecString", "CfVecStr", "EnumDVecStr", "MiscA", "MiscB", "MiscC", "TupleSD", "ArrU64x4", "E9D", "BoundString", "CfStrVec", "ConstGen3", "PhantomD", "VecPair", "Unit",
];

fn pick_vi(r: &mut Rng, max_vi: u64) -> u64 {
    match r.below(14) {
        0 => 0,
        1 => 1,
        2 => 2,
        3 => 5,
        10 => 3, // the large payload (hundreds of KiB) of the documents that have one
        // boundary-fitted stream lengths (8192, 4096, 64, 16; -1, 0, +1) for Padded documents
        4 | 5 => 6 + r.below(12),
        _ => 18 + r.below(max_vi),
    }
}

pub fn gen_ops(r: &mut Rng, c09: bool, tier: Tier) -> Vec<Op> {
    let loaders = Loader::AVAILABLE;
    let nops = r.range(6, 18) as usize;
    let mut ops = Vec::new();
    let (mut nfiles, mut nslots) = (0usize, 0usize);
    // value index: the small special values (empty, one element, a few, > 8 KiB) or any of 2^16 seeded values
    let _ = tier;
    let max_vi: u64 = 1 << 16;
    let actor = |r: &mut Rng| r.below(3) as u8;
    // swarm: per-run weights
    let w_bad = if c09 { r.range(1, 6) } else { 0 };
    let w_escape = if c09 { r.below(3) } else { 0 };
    let w_sys = if c09 { r.below(4) } else { 0 };
    while ops.len() < nops {
        if nfiles == 0 {
            ops.push(Op::Store { actor: actor(r), doc: r.pick(WORLD_DOCS).to_string(), vi: pick_vi(r, max_vi), over: None });
            nfiles += 1;
            continue;
        }
        let total = 30 + w_bad * 4 + w_escape * 3 + w_sys * 2;
        let k = r.below(total);
        let b1 = 30 + w_bad * 4;
        let b2 = b1 + w_escape * 3;
        let need_slot = matches!(k, 12..=21 | 26..=29) || (k >= b1 && k < b2);
        if need_slot && nslots == 0 {
            continue;
        }
        let op = match k {
            0..=3 => {
                nfiles += 1;
                Op::Store { actor: actor(r), doc: r.pick(WORLD_DOCS).to_string(), vi: pick_vi(r, max_vi), over: if r.chance(1, 4) { Some(r.next() as usize) } else { None } }
            }
            4..=11 => {
                nslots += 1;
                Op::Load { actor: actor(r), file: r.next() as usize, loader: *r.pick(loaders), flags: r.below(8) as u32 }
            }
            12..=16 => Op::Verify { actor: actor(r), slot: r.next() as usize },
            17..=19 => Op::Move { actor: actor(r), slot: r.next() as usize },
            20..=21 => Op::SharedRead { a1: actor(r), a2: actor(r), slot: r.next() as usize },
            22..=23 => Op::Unlink { file: r.next() as usize },
            24..=25 => Op::Rewrite { file: r.next() as usize },
            26..=29 => Op::Drop { actor: actor(r), slot: r.next() as usize },
            _ if k < b1 => {
                let damage = match r.below(10) {
                    0 | 1 => Damage::WrongType(r.pick(WORLD_DOCS).to_string()),
                    2 | 3 => Damage::HeaderFlip { byte: r.below(29) as usize, bit: r.below(8) as u8 },
                    4 => Damage::ReversedCookie,
                    5 => Damage::Tag { idx: r.next() as usize, val: r.range(16, 255) as u8 },
                    6 | 7 => Damage::Truncate(r.below(1000) as u32),
                    _ => match r.below(3) {
                        0 => Damage::Empty,
                        1 => Damage::Directory,
                        _ => Damage::Missing,
                    },
                };
                Op::BadLoad { actor: actor(r), file: r.next() as usize, loader: *r.pick(loaders), flags: r.below(8) as u32, damage }
            }
            _ if k < b2 => {
                if r.chance(1, 2) {
                    Op::Escape { actor: actor(r), slot: r.next() as usize }
                } else {
                    Op::ReadEscaped { actor: actor(r), idx: r.next() as usize }
                }
            }
            _ => {
                let loader = *r.pick(loaders);
                let fault = match loader {
                    Loader::Full => {
                        if r.chance(1, 2) {
                            SysFault::ReadEio(r.range(1, 3) as u32)
                        } else {
                            SysFault::ReadEof(r.range(1, 2) as u32)
                        }
                    }
                    Loader::Mem => {
                        if r.chance(1, 2) {
                            SysFault::ReadEio(r.range(1, 2) as u32)
                        } else {
                            SysFault::ReadEof(1)
                        }
                    }
                    Loader::LoadMmap => match r.below(4) {
                        0 => SysFault::Mmap(1),
                        1 => SysFault::Mprotect,
                        2 => SysFault::ReadEio(1),
                        _ => SysFault::ReadEof(1),
                    },
                    Loader::Mmap => SysFault::Mmap(1),
                };
                Op::SysFaultLoad { actor: actor(r), file: r.next() as usize, loader, flags: r.below(8) as u32, fault }
            }
        };
        ops.push(op);
    }
    ops
}

pub fn shrink_ops(c: &Case) -> Vec<Case> {
    let mut out = Vec::new();
    for n in [8usize, 4, 2, 1] {
        if c.ops.len() > n {
            let mut d = c.clone();
            d.ops.truncate(c.ops.len() - n);
            out.push(d);
        }
    }
    for i in 0..c.ops.len() {
        let mut d = c.clone();
        d.ops.remove(i);
        out.push(d);
    }
    // raw indices (taken modulo the number of live files / structures) -> small numbers
    for i in 0..c.ops.len() {
        for small in [0usize, 1, 2] {
            let mut op = c.ops[i].clone();
            let changed = match &mut op {
                Op::Load { file, .. } | Op::BadLoad { file, .. } | Op::SysFaultLoad { file, .. } | Op::Unlink { file } | Op::Rewrite { file } if *file > 2 => {
                    *file = small;
                    true
                }
                Op::Verify { slot, .. } | Op::Move { slot, .. } | Op::SharedRead { slot, .. } | Op::Drop { slot, .. } | Op::Escape { slot, .. } if *slot > 2 => {
                    *slot = small;
                    true
                }
                Op::ReadEscaped { idx, .. } if *idx > 2 => {
                    *idx = small;
                    true
                }
                Op::Store { over: Some(o), .. } if *o > 2 => {
                    *o = small;
                    true
                }
                _ => false,
            };
            if changed {
                let mut d = c.clone();
                d.ops[i] = op;
                out.push(d);
            }
        }
    }
    for i in 0..c.ops.len() {
        let mut d = c.clone();
        let simpler = match &c.ops[i] {
            Op::Store { actor, doc, vi, over } if *vi > 2 || over.is_some() || *actor != 0 => Some(Op::Store { actor: 0, doc: doc.clone(), vi: (*vi).min(2), over: None }),
            Op::Load { actor, file, loader, flags } if *flags != 0 || *actor != 0 => Some(Op::Load { actor: 0, file: *file, loader: *loader, flags: 0 }),
            Op::BadLoad { actor, file, loader, flags, damage } if *flags != 0 || *actor != 0 => Some(Op::BadLoad { actor: 0, file: *file, loader: *loader, flags: 0, damage: damage.clone() }),
            Op::Verify { actor, slot } if *actor != 0 => Some(Op::Verify { actor: 0, slot: *slot }),
            Op::Drop { actor, slot } if *actor != 0 => Some(Op::Drop { actor: 0, slot: *slot }),
            Op::Move { actor, slot } if *actor != 0 => Some(Op::Move { actor: 0, slot: *slot }),
            _ => None,
        };
        if let Some(s) = simpler {
            d.ops[i] = s;
            out.push(d);
        }
    }
    out
}
