#!/bin/bash
# usage: tools/try_patch.sh <patch.diff> <prop> [<prop>...]   (env TESTS=0 skips the repository test suite)
# Applies a patch to a scratch worktree of /repo (never to /repo), checks that the repository's own tests still
# pass, runs the quick tier of the given checks against the scratch tree (VERIF_REPO), then removes the worktree
# and its build output. Used only for sensitivity experiments; registered checks always run against /repo.
set -u
PATCH=$(readlink -f "$1"); shift
N=$$
WT=/tmp/mut-$N
git -C /repo worktree add -q --detach $WT HEAD || exit 2
cp /repo/Cargo.lock $WT/
if ! git -C $WT apply "$PATCH"; then echo "PATCH-DOES-NOT-APPLY"; git -C /repo worktree remove --force $WT; exit 2; fi
if [ "${TESTS:-1}" = "1" ]; then
  (cd $WT && CARGO_NET_OFFLINE=true cargo test --workspace --no-fail-fast --offline 2>&1 | grep -E '^test result' | awk '{p+=$4; f+=$6} END {print "repo-tests: passed",p,"failed",f}')
fi
cd /verif
TAG=x$(python3 -c "import hashlib;print(hashlib.sha1(b'$WT').hexdigest()[:8])")
for P in "$@"; do
  VERIF_REPO=$WT ./check $P --tier ${TIER:-quick} 2>&1 | grep -E "tier=|violation class|VIOLATION|HARNESS|KNOWN|held" | cut -c1-400
  echo "exit($P)=${PIPESTATUS[0]}"
done
rm -rf /verif/build/$TAG-* 
git -C /repo worktree remove --force $WT
