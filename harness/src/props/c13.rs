//! C13 — writer failures: error, clean prefix, intact source.
//!
//! Fault space per (target, value): failure at every byte position k∈[0,len] and at flush, for
//! three sink compositions; premature Ok(0); seeded short-write / EINTR / mixed scripts; real
//! kernel sinks (/dev/full, RLIMIT_FSIZE, missing directory, overwrite of a longer file).

use super::common::*;
use crate::canon::Canon;
use crate::ctx::{catch, panic_class, Ctx, Tier, Violation};
use crate::docs::{self, DeepS, Doc, DocFn, Gen, ZeroP, ALL_DOCS};
use crate::rng::{mix, Fnv, Rng};
use crate::simio::{Kind, NoStdSink, Script, SimWriter, Step};
use crate::tracker;
use epserde::impls::iter::SerIter;
use epserde::ser::{self, Schema, Serialize, WriteNoStd};

use std::io::BufWriter;
use std::path::Path;

pub const ID: &str = "C13";

// ---------------------------------------------------------------------------------------
// serialization targets: every document, plus serialize-only sources (borrowed slices, iterators)

pub trait Target: Sized {
    const NAME: &'static str;
    fn make(r: &mut Rng, size: usize) -> Self;
    fn ser<W: WriteNoStd>(&self, w: &mut W) -> ser::Result<usize>;
    fn ser_schema<W: WriteNoStd>(&self, w: &mut W) -> ser::Result<Schema>;
    fn store(&self, p: &Path) -> ser::Result<()>;
    fn canon(&self, out: &mut Vec<u8>);
    /// adjust the stream length to a boundary, if the target can (`Padded<..>` documents)
    fn fit(&mut self, _modulus: usize, _delta: isize) {}
}

pub struct DocT<D: Doc>(pub D);
impl<D: Doc> Target for DocT<D> {
    const NAME: &'static str = D::NAME;
    fn make(r: &mut Rng, size: usize) -> Self {
        DocT(D::gen(r, size))
    }
    fn ser<W: WriteNoStd>(&self, w: &mut W) -> ser::Result<usize> {
        self.0.serialize(w)
    }
    fn ser_schema<W: WriteNoStd>(&self, w: &mut W) -> ser::Result<Schema> {
        self.0.serialize_with_schema(w)
    }
    fn store(&self, p: &Path) -> ser::Result<()> {
        self.0.store(p)
    }
    fn canon(&self, out: &mut Vec<u8>) {
        self.0.canon(out)
    }
    fn fit(&mut self, modulus: usize, delta: isize) {
        self.0.fit_len(modulus, delta);
    }
}

macro_rules! slice_source {
    ($name:ident, $t:ty) => {
        pub struct $name(Vec<$t>);
        impl Target for $name {
            const NAME: &'static str = stringify!($name);
            fn make(r: &mut Rng, size: usize) -> Self {
                $name(Vec::gen(r, size))
            }
            fn ser<W: WriteNoStd>(&self, w: &mut W) -> ser::Result<usize> {
                let s: &[$t] = &self.0;
                s.serialize(w)
            }
            fn ser_schema<W: WriteNoStd>(&self, w: &mut W) -> ser::Result<Schema> {
                let s: &[$t] = &self.0;
                s.serialize_with_schema(w)
            }
            fn store(&self, p: &Path) -> ser::Result<()> {
                let s: &[$t] = &self.0;
                s.store(p)
            }
            fn canon(&self, out: &mut Vec<u8>) {
                self.0.canon(out)
            }
        }
    };
}
slice_source!(SrcSliceU32, u32);
slice_source!(SrcSliceU8, u8);
slice_source!(SrcSliceZeroP, ZeroP);
slice_source!(SrcSliceString, String);
slice_source!(SrcSliceVecU16, Vec<u16>);

macro_rules! iter_source {
    ($name:ident, $t:ty) => {
        pub struct $name(Vec<$t>);
        impl Target for $name {
            const NAME: &'static str = stringify!($name);
            fn make(r: &mut Rng, size: usize) -> Self {
                $name(Vec::gen(r, size))
            }
            fn ser<W: WriteNoStd>(&self, w: &mut W) -> ser::Result<usize> {
                SerIter::from(self.0.iter()).serialize(w)
            }
            fn ser_schema<W: WriteNoStd>(&self, w: &mut W) -> ser::Result<Schema> {
                SerIter::from(self.0.iter()).serialize_with_schema(w)
            }
            fn store(&self, p: &Path) -> ser::Result<()> {
                SerIter::from(self.0.iter()).store(p)
            }
            fn canon(&self, out: &mut Vec<u8>) {
                self.0.canon(out)
            }
        }
    };
}
iter_source!(SrcIterU64, u64);
iter_source!(SrcIterZeroP, ZeroP);

/// A derived struct whose parameters are a borrowed slice and an iterator.
pub struct SrcDeepRef {
    a: Vec<u32>,
    b: Vec<u64>,
    rest: DeepS<(), ()>,
}
impl SrcDeepRef {
    fn view(&self) -> DeepS<&[u32], SerIter<'_, u64, std::slice::Iter<'_, u64>>> {
        DeepS { a: &self.a[..], n: self.rest.n.clone(), b: SerIter::from(self.b.iter()), o: self.rest.o.clone(), s: self.rest.s.clone(), x: self.rest.x }
    }
}
impl Target for SrcDeepRef {
    const NAME: &'static str = "SrcDeepRef";
    fn make(r: &mut Rng, size: usize) -> Self {
        SrcDeepRef { a: Vec::gen(r, size), b: Vec::gen(r, size / 2 + 1), rest: DeepS::gen(r, size.min(6)) }
    }
    fn ser<W: WriteNoStd>(&self, w: &mut W) -> ser::Result<usize> {
        // the view (clones of the owned fields) is built outside the library call
        let v = {
            let _g = tracker::sim_enter();
            self.view()
        };
        let r = v.serialize(w);
        let _g = tracker::sim_enter();
        drop(v);
        r
    }
    fn ser_schema<W: WriteNoStd>(&self, w: &mut W) -> ser::Result<Schema> {
        let v = {
            let _g = tracker::sim_enter();
            self.view()
        };
        let r = v.serialize_with_schema(w);
        let _g = tracker::sim_enter();
        drop(v);
        r
    }
    fn store(&self, p: &Path) -> ser::Result<()> {
        let v = {
            let _g = tracker::sim_enter();
            self.view()
        };
        let r = v.store(p);
        let _g = tracker::sim_enter();
        drop(v);
        r
    }
    fn canon(&self, out: &mut Vec<u8>) {
        self.a.canon(out);
        self.b.canon(out);
        self.rest.n.canon(out);
        self.rest.o.canon(out);
        self.rest.s.canon(out);
    }
}

pub const SOURCES: &[&str] = &["SrcSliceU32", "SrcSliceU8", "SrcSliceZeroP", "SrcSliceString", "SrcSliceVecU16", "SrcIterU64", "SrcIterZeroP", "SrcDeepRef"];

pub trait TargetFn {
    type Out;
    fn call<T: Target>(self) -> Self::Out;
}
struct Adapter<F: TargetFn>(F);
impl<F: TargetFn> DocFn for Adapter<F> {
    type Out = F::Out;
    fn call<D: Doc>(self) -> F::Out {
        self.0.call::<DocT<D>>()
    }
}
pub fn dispatch_target<F: TargetFn>(name: &str, f: F) -> Option<F::Out> {
    match name {
        "SrcSliceU32" => Some(f.call::<SrcSliceU32>()),
        "SrcSliceU8" => Some(f.call::<SrcSliceU8>()),
        "SrcSliceZeroP" => Some(f.call::<SrcSliceZeroP>()),
        "SrcSliceString" => Some(f.call::<SrcSliceString>()),
        "SrcSliceVecU16" => Some(f.call::<SrcSliceVecU16>()),
        "SrcIterU64" => Some(f.call::<SrcIterU64>()),
        "SrcIterZeroP" => Some(f.call::<SrcIterZeroP>()),
        "SrcDeepRef" => Some(f.call::<SrcDeepRef>()),
        _ => docs::dispatch(name, Adapter(f)),
    }
}
fn n_targets() -> u64 {
    n_docs() + SOURCES.len() as u64
}
fn target_name(i: u64) -> &'static str {
    let docs = enum_docs();
    let i = i as usize;
    if i < docs.len() {
        docs[i]
    } else {
        SOURCES[i - docs.len()]
    }
}

// ---------------------------------------------------------------------------------------

#[derive(Clone, Copy, Debug, PartialEq, Eq, serde::Serialize, serde::Deserialize)]
pub enum Api {
    Serialize,
    SerializeWithSchema,
}
#[derive(Clone, Copy, Debug, PartialEq, Eq, serde::Serialize, serde::Deserialize)]
pub enum Sink {
    /// the scripted sink under std's `write_all`
    Sim,
    /// `BufWriter::with_capacity(c, sink)` — the composition `store` uses
    Buf(usize),
    /// the scripted sink exposed directly through the library's `WriteNoStd`
    NoStd,
}
#[derive(Clone, Debug, PartialEq, Eq, serde::Serialize, serde::Deserialize)]
pub enum Body {
    Sim { api: Api, sink: Sink, script: Script },
    /// `store("/dev/full")`
    DevFull,
    /// `store` into a directory that does not exist
    MissingDir,
    /// `store` to a scratch file under RLIMIT_FSIZE = k
    FileLimit(u64),
    /// `store` over an existing file that is `extra` bytes longer than the stream
    Overwrite(usize),
    /// `store` to a scratch file while the simulator scripts the kernel's answers to write(2)
    /// (one code per call: 0 ok, 1 EINTR, 2 ENOSPC, 3 EIO, 4 returns 0, 16+n accept at most n+1 bytes)
    KernelWrites(Vec<u8>),
    /// run every body of the unit, then drop the source value with the tracker armed
    DropAfterAll,
}
#[derive(Clone, Debug, serde::Serialize, serde::Deserialize)]
pub struct Case {
    pub target: String,
    pub vi: u64,
    pub body: Body,
}

struct Prepared<T: Target> {
    v: T,
    b: Vec<u8>,
    calls: usize,
    canon: Vec<u8>,
}

fn prepare<T: Target>(seed: u64, vi: u64, tier: Tier) -> Option<Prepared<T>> {
    let size = size_for(seed, ID, T::NAME, vi, tier);
    let mut r = Rng::new(mix(seed, "c13value", fx(T::NAME), vi.wrapping_mul(31).wrapping_add(size as u64)));
    let mut v = T::make(&mut r, size);
    if let Some((m, d)) = fit_for(vi) {
        v.fit(m, d);
    }
    let mut tmp: Vec<u8> = Vec::new();
    match catch(|| v.ser(&mut tmp)) {
        Ok(Ok(n)) if n == tmp.len() => {}
        _ => return None,
    }
    let mut w = SimWriter::new(Script::default(), tmp.len(), usize::MAX);
    match catch(|| v.ser(&mut w)) {
        Ok(Ok(_)) if w.accepted == tmp => {}
        _ => return None,
    }
    let mut canon = Vec::new();
    v.canon(&mut canon);
    Some(Prepared { v, b: tmp, calls: w.stats.calls + w.stats.flush_calls, canon })
}

pub struct Info {
    pub digest: u64,
    pub fired_any: bool,
    pub steps: u64,
    pub fired: Vec<(String, usize)>,
    pub outcome: &'static str,
}

fn tracker_violation(rep: &tracker::RunReport, when: &str) -> Option<Violation> {
    rep.viols.first().map(|v| {
        Violation::new(
            format!("C13/{}", v.kind.name()),
            format!("{}: allocator saw {} of a {}-byte block (requested size {}, align {} vs {}){}", when, v.kind.name(), v.size, v.req_size, v.align, v.req_align, if v.in_lib { " inside the library call" } else { "" }),
        )
    })
}

fn exec_sim<T: Target>(p: &Prepared<T>, api: Api, sink: Sink, script: &Script, ctx_counts: &mut Vec<String>) -> Result<Info, Violation> {
    crate::ctx::scrub_stack();
    let len = p.b.len();
    let budget = 2 * (p.calls + script.steps.len() + script.flush_fail.len()) + 4 * len + 64;
    let w = SimWriter::new(script.clone(), len, budget);
    tracker::arm();
    // run
    let (res, w): (Result<Result<usize, ser::Error>, String>, SimWriter) = match sink {
        Sink::Sim => {
            let mut w = w;
            let r = catch(|| {
                tracker::in_lib(|| match api {
                    Api::Serialize => p.v.ser(&mut w),
                    Api::SerializeWithSchema => p.v.ser_schema(&mut w).map(|_| len),
                })
            });
            (r, w)
        }
        Sink::Buf(c) => {
            let mut bw = BufWriter::with_capacity(c, w);
            let r = catch(|| {
                tracker::in_lib(|| match api {
                    Api::Serialize => p.v.ser(&mut bw),
                    Api::SerializeWithSchema => p.v.ser_schema(&mut bw).map(|_| len),
                })
            });
            let (w, _unflushed) = bw.into_parts();
            (r, w)
        }
        Sink::NoStd => {
            let mut ns = NoStdSink(w);
            let r = catch(|| {
                tracker::in_lib(|| match api {
                    Api::Serialize => p.v.ser(&mut ns),
                    Api::SerializeWithSchema => p.v.ser_schema(&mut ns).map(|_| len),
                })
            });
            (r, ns.0)
        }
    };
    let mut after = Vec::new();
    let canon_ok = catch(|| p.v.canon(&mut after)).is_ok() && after == p.canon;
    let stats = w.stats.clone();
    let accepted_len = w.accepted.len();
    let is_prefix = w.accepted.len() <= len && w.accepted[..] == p.b[..w.accepted.len()];
    let over = w.over_budget;
    drop(w);
    drop(after);
    let rep = tracker::disarm();

    for f in &stats.fired {
        ctx_counts.push(format!("fault.{}", f.what));
    }
    if stats.shorts > 0 {
        ctx_counts.push("fault.short-write".into());
    }
    let terminal = stats.terminal > 0;
    let what = format!("{:?} into {:?} with {:?}", api, sink, script);
    if over {
        return Err(Violation::new("C13/no-termination", format!("{}: serialization did not return within {} sink calls after the script was exhausted", what, budget)));
    }
    let outcome: &'static str = match &res {
        Err(pmsg) => {
            return Err(Violation::new("C13/panic", format!("{}: serialization panicked ({})", what, pmsg)));
        }
        Ok(Ok(_)) => "ok",
        Ok(Err(ser::Error::WriteError)) => "write-error",
        Ok(Err(_)) => "other-error",
    };
    if terminal && outcome == "ok" {
        return Err(Violation::new("C13/success-after-failure", format!("{}: the sink failed ({:?}) but serialization reported success", what, stats.fired)));
    }
    if terminal && outcome != "write-error" {
        return Err(Violation::new("C13/wrong-error", format!("{}: the sink failed but the result was {:?}", what, res)));
    }
    if !terminal && outcome != "ok" {
        return Err(Violation::new("C13/spurious-error", format!("{}: only retryable faults fired ({:?}) but the result was {:?}", what, stats.fired, res)));
    }
    if let (Api::Serialize, Ok(Ok(n))) = (api, &res) {
        if *n != len {
            // the byte count returned on success is not part of C13's statement (it belongs to the
            // unclaimed C07): counted, never a violation
            ctx_counts.push("note.returned_length_differs".into());
        }
    }
    if !is_prefix {
        return Err(Violation::new("C13/not-prefix", format!("{}: the {} bytes the sink accepted are not a prefix of the fault-free stream ({} bytes)", what, accepted_len, len)));
    }
    if !terminal && accepted_len != len {
        return Err(Violation::new("C13/incomplete-output", format!("{}: success, but the sink received {} of {} bytes", what, accepted_len, len)));
    }
    if !canon_ok {
        return Err(Violation::new("C13/source-changed", format!("{}: the source value differs after the call", what)));
    }
    if let Some(v) = tracker_violation(&rep, &what) {
        return Err(v);
    }
    let mut h = Fnv::new();
    h.str(outcome).u64(accepted_len as u64);
    for f in &stats.fired {
        h.str(&f.what).u64(f.at as u64);
    }
    Ok(Info { digest: h.get(), fired_any: !stats.fired.is_empty() || stats.shorts > 0, steps: (stats.calls + stats.flush_calls) as u64, fired: stats.fired.iter().map(|f| (f.what.clone(), f.at)).collect(), outcome })
}

/// Returns the limit actually in force (None = the limit could not be set in this environment).
fn set_fsize_limit(k: Option<u64>) -> Option<u64> {
    unsafe {
        let mut cur: libc::rlimit = std::mem::zeroed();
        if libc::getrlimit(libc::RLIMIT_FSIZE, &mut cur) != 0 {
            return None;
        }
        cur.rlim_cur = match k {
            Some(k) => k.min(cur.rlim_max),
            None => cur.rlim_max,
        };
        if libc::setrlimit(libc::RLIMIT_FSIZE, &cur) != 0 {
            return None;
        }
        Some(cur.rlim_cur)
    }
}

/// Is /dev/full the device it should be (a write fails with ENOSPC)? Asked of the kernel directly.
fn dev_full_works() -> bool {
    use std::io::Write;
    thread_local! { static OK: std::cell::Cell<Option<bool>> = const { std::cell::Cell::new(None) }; }
    OK.with(|c| {
        if c.get().is_none() {
            let ok = match std::fs::OpenOptions::new().write(true).open("/dev/full") {
                Ok(mut f) => matches!(f.write(&[0u8]), Err(e) if e.raw_os_error() == Some(libc::ENOSPC)),
                Err(_) => false,
            };
            c.set(Some(ok));
        }
        c.get().unwrap()
    })
}

fn exec_store<T: Target>(p: &Prepared<T>, body: &Body, scratch: &Path, ctx_counts: &mut Vec<String>) -> Result<Info, Violation> {
    let len = p.b.len();
    let path = scratch.join("c13.bin");
    let _ = std::fs::remove_file(&path);
    let mut kstats: Option<(u32, u32, usize)> = None;
    let mut eff_limit: Option<u64> = None;
    tracker::arm();
    let (res, expect_file): (Result<ser::Result<()>, String>, Option<Vec<u8>>) = match body {
        Body::DevFull => {
            if !dev_full_works() {
                let _ = tracker::disarm();
                ctx_counts.push("env.dev_full_unavailable_skipped".into());
                return Ok(Info { digest: 0, fired_any: false, steps: 0, fired: vec![], outcome: "skipped" });
            }
            (catch(|| tracker::in_lib(|| p.v.store(Path::new("/dev/full")))), None)
        }
        Body::MissingDir => (catch(|| tracker::in_lib(|| p.v.store(&scratch.join("no-such-dir").join("x.bin")))), None),
        Body::FileLimit(k) => {
            let Some(eff) = set_fsize_limit(Some(*k)) else {
                let _ = tracker::disarm();
                ctx_counts.push("env.rlimit_fsize_unavailable_skipped".into());
                return Ok(Info { digest: 0, fired_any: false, steps: 0, fired: vec![], outcome: "skipped" });
            };
            let r = catch(|| tracker::in_lib(|| p.v.store(&path)));
            set_fsize_limit(None);
            eff_limit = Some(eff);
            (r, Some(p.b[..(eff as usize).min(len)].to_vec()))
        }
        Body::Overwrite(_) => {
            let _ = tracker::disarm();
            return Ok(Info { digest: 0, fired_any: false, steps: 0, fired: vec![], outcome: "skipped" });
        }
        Body::KernelWrites(script) => {
            let r = {
                let _s = crate::sys::store_enter(script);
                catch(|| tracker::in_lib(|| p.v.store(&path)))
            };
            let (_calls, faults, terminal, accepted) = crate::sys::store_stats();
            kstats = Some((faults, terminal, accepted));
            (r, Some(p.b[..accepted.min(len)].to_vec()))
        }
        Body::Sim { .. } | Body::DropAfterAll => unreachable!(),
    };
    let mut after = Vec::new();
    let canon_ok = catch(|| p.v.canon(&mut after)).is_ok() && after == p.canon;
    drop(after);
    let file = if expect_file.is_some() { std::fs::read(&path).ok() } else { None };
    let rep = tracker::disarm();
    let _ = std::fs::remove_file(&path);
    let what = format!("{:?}", body);
    let outcome: &'static str = match &res {
        Err(pmsg) => return Err(Violation::new("C13/panic", format!("store {}: panicked ({})", what, pmsg))),
        Ok(Ok(())) => "ok",
        Ok(Err(ser::Error::WriteError)) => "write-error",
        Ok(Err(ser::Error::FileOpenError(_))) => "file-open-error",
        Ok(Err(_)) => "other-error",
    };
    let expected: &'static str = match body {
        Body::DevFull => {
            ctx_counts.push("fault.ENOSPC(/dev/full)".into());
            "write-error"
        }
        Body::MissingDir => {
            // the statement speaks of writer failures, not of failures to open: anything but a panic is accepted
            ctx_counts.push("fault.ENOENT(create)".into());
            let _ = std::fs::remove_dir_all(scratch.join("no-such-dir"));
            outcome
        }
        Body::FileLimit(k) => {
            let k = &eff_limit.unwrap_or(*k);
            if (*k as usize) < len {
                ctx_counts.push("fault.EFBIG(RLIMIT_FSIZE)".into());
                "write-error"
            } else {
                "ok"
            }
        }
        Body::Overwrite(_) => "ok",
        Body::KernelWrites(_) => {
            let (faults, terminal, accepted) = kstats.unwrap_or((0, 0, 0));
            if faults > terminal {
                ctx_counts.push("fault.kernel_short_write_or_EINTR".into());
            }
            if terminal > 0 {
                ctx_counts.push("fault.kernel_write_errno".into());
                if accepted > 0 && accepted < len {
                    ctx_counts.push("probe.kernel_fault_mid_stream".into());
                }
                "write-error"
            } else {
                "ok"
            }
        }
        Body::Sim { .. } | Body::DropAfterAll => unreachable!(),
    };
    if outcome != expected {
        let class = if expected != "ok" && outcome == "ok" { "C13/success-after-failure" } else if expected == "ok" { "C13/spurious-error" } else { "C13/wrong-error" };
        return Err(Violation::new(class, format!("store {}: expected {}, got {}", what, expected, outcome)));
    }
    if let Some(want) = expect_file {
        match file {
            // success: the sink (the file) must have received exactly the fault-free bytes
            Some(got) if outcome == "ok" => {
                if got != p.b {
                    return Err(Violation::new("C13/incomplete-output", format!("store {}: success, but the file holds {} bytes that are not the {}-byte stream", what, got.len(), len)));
                }
            }
            // failure: whatever the file holds must be a prefix of the fault-free stream, no longer than what
            // the kernel could accept (a library that removes or truncates the partial file is fine)
            Some(got) => {
                if got.len() > want.len() || got[..] != p.b[..got.len().min(len)] {
                    return Err(Violation::new("C13/not-prefix", format!("store {}: the file holds {} bytes that are not a prefix (of at most {} bytes) of the {}-byte stream", what, got.len(), want.len(), len)));
                }
            }
            None => {
                if outcome == "ok" {
                    return Err(Violation::new("C13/incomplete-output", format!("store {}: success, but the file does not exist", what)));
                }
            }
        }
    }
    if !canon_ok {
        return Err(Violation::new("C13/source-changed", format!("store {}: the source value differs after the call", what)));
    }
    if let Some(v) = tracker_violation(&rep, &format!("store {}", what)) {
        return Err(v);
    }
    let mut h = Fnv::new();
    h.str(outcome).str(&what);
    let fired_any = expected != "ok" || kstats.map(|k| k.0 > 0).unwrap_or(false);
    Ok(Info { digest: h.get(), fired_any, steps: 1, fired: vec![], outcome })
}

fn exec_body<T: Target>(p: &Prepared<T>, body: &Body, scratch: &Path, counts: &mut Vec<String>) -> Result<Info, Violation> {
    match body {
        Body::Sim { api, sink, script } => exec_sim(p, *api, *sink, script, counts),
        Body::DropAfterAll => Ok(Info { digest: 0, fired_any: false, steps: 0, fired: vec![], outcome: "ok" }),
        _ => exec_store(p, body, scratch, counts),
    }
}

/// Drop the source while the tracker is armed: nothing invalid may happen at the owner's own drop.
fn drop_source<T: Target>(p: Prepared<T>) -> Option<Violation> {
    tracker::arm();
    drop(p);
    let rep = tracker::disarm();
    tracker_violation(&rep, "dropping the source value after the faulted calls")
}

// ---------------------------------------------------------------------------------------
// generation

const BUF_CAPS: [usize; 8] = [0, 1, 2, 3, 7, 8, 64, 8192];

fn seeded_script(r: &mut Rng, len: usize) -> Script {
    let mut steps = Vec::new();
    let n = r.range(1, 24);
    let mut terminal = false;
    for _ in 0..n {
        match r.below(10) {
            0..=3 => steps.push(Step::Chunk(*r.pick(&[1usize, 1, 2, 3, 5, 7, 11, 13, 64, 1000]))),
            4 | 5 => {
                for _ in 0..r.range(1, 3) {
                    steps.push(Step::Intr);
                }
            }
            6 => steps.push(Step::Until(r.below(len as u64 + 1) as usize)),
            7 => {
                if r.chance(1, 2) && !terminal {
                    steps.push(Step::Zero);
                    terminal = true;
                }
            }
            8 => {
                if r.chance(1, 2) && !terminal {
                    steps.push(Step::Fail(*r.pick(&Kind::ALL)));
                    terminal = true;
                }
            }
            _ => steps.push(Step::Chunk(r.range(1, len as u64 + 1) as usize)),
        }
    }
    let tail = match r.below(5) {
        0 => vec![1],
        1 => vec![2, 3, 5, 7, 11, 13],
        2 => (0..r.range(1, 6)).map(|_| r.range(1, 40) as usize).collect(),
        _ => vec![],
    };
    let flush_fail = if !terminal && r.chance(1, 8) { vec![true] } else { vec![] };
    Script { steps, tail, flush_fail }
}

/// The list of bodies executed for one (target, value) unit: exhaustive positional enumeration
/// followed by seeded scripts and the real kernel sinks. `sub` = index in this list.
fn bodies(seed: u64, target: &str, vi: u64, len: usize, tier: Tier) -> Vec<Body> {
    let mut r = Rng::new(mix(seed, "c13bodies", fx(target), vi));
    let mut out = Vec::new();
    let cap_a = *r.pick(&BUF_CAPS);
    let cap_b = *r.pick(&BUF_CAPS);
    let sinks = [Sink::Sim, Sink::Buf(cap_a), Sink::NoStd];
    // (1) every failure position k in [0, len] for each sink composition, + flush failure
    let ks = positions(len, true, &mut r);
    for (si, sink) in sinks.iter().enumerate() {
        for &k in &ks {
            let kind = Kind::ALL[(k + si) % Kind::ALL.len()];
            out.push(Body::Sim { api: Api::Serialize, sink: *sink, script: Script::fail_at(k, kind) });
        }
        out.push(Body::Sim { api: Api::Serialize, sink: *sink, script: Script::flush_failure() });
    }
    // premature Ok(0) at every position (thorough) / at sampled positions (quick), std sink only
    let zero_positions: Vec<usize> = match tier {
        Tier::Thorough => ks.clone(),
        Tier::Quick => (0..12).map(|_| r.below(len as u64 + 1) as usize).collect(),
    };
    for k in zero_positions {
        out.push(Body::Sim { api: Api::Serialize, sink: if r.chance(1, 3) { Sink::Buf(cap_b) } else { Sink::Sim }, script: Script::zero_at(k) });
    }
    // serialize_with_schema: every position under the plain sink for a quarter of the units, sampled otherwise
    let schema_positions: Vec<usize> = if vi % 4 == 1 || matches!(tier, Tier::Thorough) && vi % 2 == 0 { ks.clone() } else { (0..8).map(|_| r.below(len as u64 + 1) as usize).collect() };
    for k in schema_positions {
        out.push(Body::Sim { api: Api::SerializeWithSchema, sink: Sink::Sim, script: Script::fail_at(k, Kind::Other) });
    }
    // (2) seeded scripts
    let nseeded = match tier {
        Tier::Quick => 40,
        Tier::Thorough => 120,
    };
    for _ in 0..nseeded {
        let sink = match r.below(4) {
            0 => Sink::Buf(*r.pick(&BUF_CAPS)),
            1 => Sink::NoStd,
            _ => Sink::Sim,
        };
        let api = if r.chance(1, 6) { Api::SerializeWithSchema } else { Api::Serialize };
        out.push(Body::Sim { api, sink, script: seeded_script(&mut r, len) });
    }
    // (3) real kernel sinks
    out.push(Body::DevFull);
    out.push(Body::MissingDir);
    let _ = r.range(1, 300); // (a store over a longer existing file used to be generated here: it is C08's sentence, see world.rs)
    out.push(Body::FileLimit(len as u64 + r.below(3)));
    let nlim = match tier {
        Tier::Quick => 3,
        Tier::Thorough => 12,
    };
    for _ in 0..nlim {
        out.push(Body::FileLimit(r.below(len as u64)));
    }
    // scripted kernel answers to the buffered writer inside store(): the BufWriter (8 KiB) issues one
    // write(2) per flush, so short writes split the stream at arbitrary positions
    let nk = match tier {
        Tier::Quick => 12,
        Tier::Thorough => 40,
    };
    for _ in 0..nk {
        let n = r.range(1, 8) as usize;
        let mut s: Vec<u8> = Vec::new();
        let mut terminal = false;
        for _ in 0..n {
            let c = match r.below(10) {
                0 | 1 => 1u8,                                   // EINTR
                2..=5 => 16 + r.below(200) as u8,               // short write of 1..=200 bytes
                6 if !terminal => { terminal = true; 2 }        // ENOSPC
                7 if !terminal => { terminal = true; 3 }        // EIO
                8 if !terminal => { terminal = true; 4 }        // write returns 0
                _ => 0,
            };
            s.push(c);
        }
        out.push(Body::KernelWrites(s));
    }
    out
}

pub fn values_per_target(tier: Tier) -> u64 {
    values_per_doc(tier, 16, 300)
}
pub fn n_units(tier: Tier) -> u64 {
    n_targets() * values_per_target(tier)
}

fn note_probes(ctx: &mut Ctx, body: &Body, info: &Info, len: usize, schema_rows: &[(usize, usize, u8)]) {
    // where did the (first terminal) fault land? rows: (offset, size, class) class: 0 header, 1 len/tag, 2 padding, 3 zero block, 4 other
    if let Some((what, at)) = info.fired.iter().find(|(w, _)| w.starts_with("fail") || w == "zero") {
        let _ = what;
        if *at < 29 {
            ctx.count("probe.fault_in_header_fields");
        }
        if *at == len {
            ctx.count("probe.fault_after_last_byte");
        }
        for (off, size, class) in schema_rows {
            if *at >= *off && *at < off + size {
                match class {
                    1 => ctx.count("probe.fault_in_len_or_tag"),
                    2 => ctx.count("probe.fault_in_padding"),
                    3 => ctx.count("probe.fault_in_zero_copy_block"),
                    _ => {}
                }
            }
        }
    }
    if info.fired.iter().any(|(w, _)| w == "flush-fail") {
        ctx.count("probe.flush_failure");
    }
    if info.fired.iter().any(|(w, _)| w == "intr") && info.outcome == "ok" {
        ctx.count("probe.eintr_retried_to_success");
    }
    if let Body::Sim { sink: Sink::Buf(_), .. } = body {
        if info.fired.iter().any(|(w, _)| w.starts_with("fail")) {
            ctx.count("probe.fault_deferred_by_bufwriter");
        }
    }
}

struct RunUnit<'a> {
    ctx: &'a mut Ctx,
    unit: u64,
    vi: u64,
}
impl TargetFn for RunUnit<'_> {
    type Out = ();
    fn call<T: Target>(self) {
        let RunUnit { ctx, unit, vi } = self;
        ctx.begin(unit, u64::MAX);
        let Some(p) = prepare::<T>(ctx.seed, vi, ctx.tier) else {
            ctx.count("control_failures");
            return;
        };
        ctx.docs_seen.insert(T::NAME.to_string());
        let len = p.b.len();
        // schema rows for the "where did the fault land" probes
        let mut rows: Vec<(usize, usize, u8)> = Vec::new();
        let mut tmp = Vec::new();
        if let Ok(Ok(s)) = catch(|| p.v.ser_schema(&mut tmp)) {
            for r in &s.0 {
                let class = if r.field == "PADDING" {
                    2
                } else if r.field.ends_with(".zero") {
                    3
                } else if r.field.ends_with(".len") || r.field.ends_with("ag") {
                    1
                } else {
                    continue;
                };
                rows.push((r.offset, r.size, class));
            }
        }
        drop(tmp);
        let bodies = bodies(ctx.seed, T::NAME, vi, len, ctx.tier);
        let scratch = ctx.scratch.clone();
        let canon_digest = Fnv::new().bytes(&p.canon).get();
        let mut counts = Vec::new();
        for (sub, body) in bodies.iter().enumerate() {
            let sub = sub as u64;
            ctx.begin(unit, sub);
            counts.clear();
            let r = exec_body(&p, body, &scratch, &mut counts);
            for c in counts.drain(..) {
                ctx.count(&c);
            }
            match r {
                Ok(info) => {
                    ctx.logical_steps += info.steps;
                    note_probes(ctx, body, &info, len, &rows);
                    let nt = if info.fired_any { Some(Fnv::new().str(T::NAME).u64(canon_digest).str(&format!("{:?}", body)).get()) } else { None };
                    ctx.done(unit, sub, info.digest, nt);
                    if info.fired_any && sub % 97 == 3 {
                        ctx.sample(|| serde_json::json!({"case": Case { target: T::NAME.into(), vi, body: body.clone() }, "stream_len": len, "fired": info.fired, "outcome": info.outcome}));
                    }
                }
                Err(v) => {
                    ctx.done(unit, sub, Fnv::new().str(&v.class).get(), None);
                    ctx.violation(v, unit, sub, || serde_json::to_value(&Case { target: T::NAME.into(), vi, body: body.clone() }).unwrap());
                }
            }
        }
        ctx.begin(unit, u64::MAX - 1);
        if let Some(v) = drop_source(p) {
            ctx.violation(v, unit, u64::MAX - 1, || serde_json::to_value(&Case { target: T::NAME.into(), vi, body: Body::DropAfterAll }).unwrap());
        }
    }
}

pub fn run_unit(ctx: &mut Ctx, unit: u64) {
    let n = n_targets();
    let name = target_name(unit % n);
    let vi = unit / n;
    dispatch_target(name, RunUnit { ctx, unit, vi });
}

struct CaseAt {
    seed: u64,
    tier: Tier,
    vi: u64,
    sub: u64,
}
impl TargetFn for CaseAt {
    type Out = Option<Case>;
    fn call<T: Target>(self) -> Option<Case> {
        let p = prepare::<T>(self.seed, self.vi, self.tier)?;
        let b = bodies(self.seed, T::NAME, self.vi, p.b.len(), self.tier);
        b.get(self.sub as usize).map(|body| Case { target: T::NAME.into(), vi: self.vi, body: body.clone() })
    }
}
pub fn case_at(ctx: &mut Ctx, unit: u64, sub: u64) -> Option<serde_json::Value> {
    let n = n_targets();
    let name = target_name(unit % n);
    dispatch_target(name, CaseAt { seed: ctx.seed, tier: ctx.tier, vi: unit / n, sub }).flatten().map(|c| serde_json::to_value(&c).unwrap())
}

struct Replay<'a> {
    case: &'a Case,
    seed: u64,
    tier: Tier,
    scratch: std::path::PathBuf,
}
impl TargetFn for Replay<'_> {
    type Out = Result<Option<Violation>, String>;
    fn call<T: Target>(self) -> Self::Out {
        let Some(p) = prepare::<T>(self.seed, self.case.vi, self.tier) else { return Err("the fault-free control run of this value fails".into()) };
        let mut counts = Vec::new();
        if self.case.body == Body::DropAfterAll {
            for b in bodies(self.seed, T::NAME, self.case.vi, p.b.len(), self.tier) {
                let _ = exec_body(&p, &b, &self.scratch, &mut counts);
            }
        }
        let r = exec_body(&p, &self.case.body, &self.scratch, &mut counts);
        let d = drop_source(p);
        match r {
            Err(v) => Ok(Some(v)),
            Ok(_) => Ok(d),
        }
    }
}
pub fn replay(case: &serde_json::Value, ctx: &mut Ctx) -> Result<Option<Violation>, String> {
    let c: Case = serde_json::from_value(case.clone()).map_err(|e| e.to_string())?;
    let tier = tier_from(case, ctx);
    dispatch_target(&c.target, Replay { case: &c, seed: ctx.seed, tier, scratch: ctx.scratch.clone() }).unwrap_or(Err("unknown target".into()))
}
fn tier_from(_case: &serde_json::Value, ctx: &Ctx) -> Tier {
    ctx.tier
}

pub fn shrink(case: &serde_json::Value) -> Vec<serde_json::Value> {
    let Ok(c) = serde_json::from_value::<Case>(case.clone()) else { return vec![] };
    let mut out: Vec<Case> = Vec::new();
    // smaller value of the same target first (value index 0 = empty, 1 = one element, 2 = a few)
    for vi in 0..c.vi.min(3) {
        let mut d = c.clone();
        d.vi = vi;
        out.push(d);
    }
    if let Body::Sim { api, sink, script } = &c.body {
        if *sink != Sink::Sim {
            out.push(Case { body: Body::Sim { api: *api, sink: Sink::Sim, script: script.clone() }, ..c.clone() });
        }
        if *api != Api::Serialize {
            out.push(Case { body: Body::Sim { api: Api::Serialize, sink: *sink, script: script.clone() }, ..c.clone() });
        }
        for i in 0..script.steps.len() {
            let mut s = script.clone();
            s.steps.remove(i);
            out.push(Case { body: Body::Sim { api: *api, sink: *sink, script: s }, ..c.clone() });
        }
        if !script.tail.is_empty() {
            let mut s = script.clone();
            s.tail.clear();
            out.push(Case { body: Body::Sim { api: *api, sink: *sink, script: s }, ..c.clone() });
        }
        if !script.flush_fail.is_empty() {
            let mut s = script.clone();
            s.flush_fail.clear();
            out.push(Case { body: Body::Sim { api: *api, sink: *sink, script: s }, ..c.clone() });
        }
        for i in 0..script.steps.len() {
            let simpler = match script.steps[i] {
                Step::Until(k) if k > 0 => Some(Step::Until(k / 2)),
                Step::Chunk(k) if k > 1 => Some(Step::Chunk(k / 2)),
                Step::Fail(k) if k != Kind::Other => Some(Step::Fail(Kind::Other)),
                _ => None,
            };
            if let Some(st) = simpler {
                let mut s = script.clone();
                s.steps[i] = st;
                out.push(Case { body: Body::Sim { api: *api, sink: *sink, script: s }, ..c.clone() });
            }
        }
        for i in 0..script.steps.len() {
            if let Step::Until(k) = script.steps[i] {
                if k > 0 {
                    let mut s = script.clone();
                    s.steps[i] = Step::Until(k - 1);
                    out.push(Case { body: Body::Sim { api: *api, sink: *sink, script: s }, ..c.clone() });
                }
            }
        }
    }
    if let Body::KernelWrites(s) = &c.body {
        for i in 0..s.len() {
            let mut t = s.clone();
            t.remove(i);
            out.push(Case { body: Body::KernelWrites(t), ..c.clone() });
        }
        for i in 0..s.len() {
            if s[i] > 16 {
                let mut t = s.clone();
                t[i] = 16 + (s[i] - 16) / 2;
                out.push(Case { body: Body::KernelWrites(t), ..c.clone() });
            }
        }
    }
    if let Body::FileLimit(k) = c.body {
        if k > 0 {
            out.push(Case { body: Body::FileLimit(k / 2), ..c.clone() });
            out.push(Case { body: Body::FileLimit(k - 1), ..c.clone() });
        }
    }
    out.into_iter().map(|d| serde_json::to_value(&d).unwrap()).collect()
}
