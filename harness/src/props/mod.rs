//! One module per claimed property: generate / execute / shrink.
pub mod c08;
pub mod c09;
pub mod c10;
pub mod c11;
pub mod c12;
pub mod c13;
pub mod c14;
pub mod c15;
pub mod c19;
pub mod common;
pub mod world;

use crate::PropDef;

macro_rules! def {
    ($m:ident) => {
        PropDef { id: $m::ID, n_units: $m::n_units, run_unit: $m::run_unit, replay: $m::replay, shrink: $m::shrink, case_at: $m::case_at }
    };
}

pub fn all() -> Vec<PropDef> {
    vec![
        def!(c08),
        def!(c09),
        def!(c10),
        def!(c11),
        def!(c12),
        def!(c13),
        def!(c14),
        def!(c15),
        PropDef {
            id: c19::ID,
            n_units: c19::n_units,
            run_unit: c19::run_unit,
            replay: |c, _ctx| c19::replay(c),
            shrink: c19::shrink,
            case_at: |ctx, u, s| Some(serde_json::to_value(c19::case_for(ctx.seed, u, s)).unwrap()),
        },
    ]
}
