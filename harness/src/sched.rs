//! Baton scheduler (filled in with C08/C09).
