//! Must NOT compile: dropping (moving) the buffer while the ε-copy result is alive.
use epserde::prelude::*;

fn main() {
    let buf: Vec<u8> = vec![0; 128];
    let r = <Vec<u64>>::deserialize_eps(&buf).unwrap();
    drop(buf);
    println!("{}", r.len());
}
