//! C14 — reader fragmentation does not change the value; reader failure is a read error.

use super::common::*;
use crate::canon::Canon;
use crate::ctx::{catch, Ctx, Tier, Violation};
use crate::docs::{self, Doc, DocFn, ALL_DOCS};
use crate::rng::{mix, Fnv, Rng};
use crate::simio::{Kind, NoStdSource, Script, SimReader, Step};
use crate::tracker;
use epserde::deser::{self, Deserialize};
use std::io::BufReader;

pub const ID: &str = "C14";

#[derive(Clone, Copy, Debug, PartialEq, Eq, serde::Serialize, serde::Deserialize)]
pub enum Src {
    Sim,
    Buf(usize),
    /// the scripted source exposed directly through the library's `ReadNoStd`
    NoStd,
}
#[derive(Clone, Debug, serde::Serialize, serde::Deserialize)]
pub struct Case {
    pub doc: String,
    pub vi: u64,
    pub src: Src,
    pub script: Script,
}

pub struct Info {
    digest: u64,
    fired: Vec<(String, usize)>,
    shorts: usize,
    steps: u64,
    outcome: &'static str,
}

fn exec<D: Doc>(p: &PrepDoc<D>, src: Src, script: &Script) -> Result<Info, Violation> {
    crate::ctx::scrub_stack();
    let len = p.b.len();
    let budget = 4 * len + 2 * script.steps.len() + 64;
    let what = format!("deserialize_full::<{}> from {:?} with {:?}", D::NAME, src, script);
    tracker::arm();
    let mut rdr = SimReader::new(script.clone(), &p.b, budget);
    let (res, stats, over) = match src {
        Src::Sim => {
            let r = catch(|| tracker::in_lib(|| D::deserialize_full(&mut rdr)));
            (r, rdr.stats.clone(), rdr.over_budget)
        }
        Src::NoStd => {
            let mut ns = NoStdSource(rdr);
            let r = catch(|| tracker::in_lib(|| D::deserialize_full(&mut ns)));
            (r, ns.0.stats.clone(), ns.0.over_budget)
        }
        Src::Buf(c) => {
            let mut br = BufReader::with_capacity(c, rdr);
            let r = catch(|| tracker::in_lib(|| D::deserialize_full(&mut br)));
            let rdr = br.into_inner();
            (r, rdr.stats.clone(), rdr.over_budget)
        }
    };
    // canonical value (if any) and drop of whatever was returned, still under the armed tracker
    let (outcome, got_canon): (&'static str, Option<Vec<u8>>) = match res {
        Err(ref pmsg) => {
            let _ = tracker::disarm();
            return Err(Violation::new("C14/panic", format!("{}: panicked ({})", what, pmsg)));
        }
        Ok(Ok(val)) => {
            let mut c = Vec::new();
            let cr = catch(|| val.canon(&mut c));
            let dr = catch(move || drop(val));
            if cr.is_err() || dr.is_err() {
                let _ = tracker::disarm();
                return Err(Violation::new("C14/corrupt-value", format!("{}: rendering or dropping the returned value panicked", what)));
            }
            ("ok", Some(c))
        }
        Ok(Err(deser::Error::ReadError)) => ("read-error", None),
        Ok(Err(ref e)) => {
            let name = deser_err_name(e);
            let _ = tracker::disarm();
            return Err(Violation::new("C14/wrong-error", format!("{}: returned {} (fired: {:?})", what, name, stats.fired)));
        }
    };
    let rep = tracker::disarm();
    if over {
        return Err(Violation::new("C14/no-termination", format!("{}: did not return within {} source calls", what, budget)));
    }
    let terminal = stats.terminal > 0;
    if terminal && outcome == "ok" {
        return Err(Violation::new("C14/value-after-failure", format!("{}: the source failed ({:?}) but a value was returned", what, stats.fired)));
    }
    if !terminal && outcome != "ok" {
        return Err(Violation::new("C14/spurious-error", format!("{}: only fragmentation / EINTR happened ({:?}) but the result was a read error", what, stats.fired)));
    }
    if let Some(c) = &got_canon {
        if *c != p.canon {
            return Err(Violation::new("C14/value-differs", format!("{}: the value differs from the one read from an unfragmented cursor", what)));
        }
    }
    if let Some(v) = rep.viols.first() {
        return Err(Violation::new(format!("C14/{}", v.kind.name()), format!("{}: allocator saw {} (block of {} bytes{})", what, v.kind.name(), v.size, if v.in_lib { ", inside the library call" } else { "" })));
    }
    let mut h = Fnv::new();
    h.str(outcome);
    for f in &stats.fired {
        h.str(&f.what).u64(f.at as u64);
    }
    h.u64(stats.shorts as u64);
    Ok(Info { digest: h.get(), fired: stats.fired.iter().map(|f| (f.what.clone(), f.at)).collect(), shorts: stats.shorts, steps: stats.calls as u64, outcome })
}

const BUF_CAPS: [usize; 8] = [0, 1, 2, 3, 7, 8, 64, 8192];

fn seeded_script(r: &mut Rng, len: usize) -> Script {
    let mut steps = Vec::new();
    let n = r.range(1, 24);
    let mut terminal = false;
    for _ in 0..n {
        match r.below(10) {
            0..=3 => steps.push(Step::Chunk(*r.pick(&[1usize, 1, 2, 3, 5, 7, 11, 13, 64, 1000]))),
            4 | 5 => {
                for _ in 0..r.range(1, 3) {
                    steps.push(Step::Intr);
                }
            }
            6 => steps.push(Step::Until(r.below(len as u64 + 1) as usize)),
            7 => {
                if r.chance(1, 3) && !terminal {
                    steps.push(Step::Zero);
                    terminal = true;
                }
            }
            8 => {
                if r.chance(1, 3) && !terminal {
                    steps.push(Step::Fail(*r.pick(&Kind::ALL)));
                    terminal = true;
                }
            }
            _ => steps.push(Step::Chunk(r.range(1, len as u64 + 1) as usize)),
        }
    }
    let tail = match r.below(5) {
        0 => vec![1],
        1 => vec![2, 3, 5, 7, 11, 13],
        2 => (0..r.range(1, 6)).map(|_| r.range(1, 40) as usize).collect(),
        _ => vec![],
    };
    Script { steps, tail, flush_fail: vec![] }
}

fn cases(seed: u64, doc: &str, vi: u64, len: usize, tier: Tier) -> Vec<(Src, Script)> {
    let mut r = Rng::new(mix(seed, "c14cases", fx(doc), vi));
    let mut out = Vec::new();
    let cap = *r.pick(&BUF_CAPS);
    // every failure position: hard error and premature EOF, plain source and buffered source
    let ks = positions(len, false, &mut r);
    for src in [Src::Sim, Src::Buf(cap), Src::NoStd] {
        for &k in &ks {
            out.push((src, Script::fail_at(k, Kind::ALL[k % Kind::ALL.len()])));
            out.push((src, Script::zero_at(k)));
        }
    }
    // fragmentation families
    for tail in [vec![1usize], vec![2, 3, 5, 7, 11, 13], vec![3], vec![7, 1]] {
        out.push((Src::Sim, Script::chunks(tail.clone())));
        out.push((Src::Buf(*r.pick(&BUF_CAPS)), Script::chunks(tail)));
    }
    // EINTR before every read of a 1-byte-at-a-time source
    out.push((Src::Sim, Script { steps: (0..2 * len.min(400)).map(|i| if i % 2 == 0 { Step::Intr } else { Step::Chunk(1) }).collect(), tail: vec![1], flush_fail: vec![] }));
    let nseeded = match tier {
        Tier::Quick => 40,
        Tier::Thorough => 120,
    };
    for _ in 0..nseeded {
        let src = match r.below(6) {
            0 | 1 => Src::Buf(*r.pick(&BUF_CAPS)),
            2 => Src::NoStd,
            _ => Src::Sim,
        };
        out.push((src, seeded_script(&mut r, len)));
    }
    out
}

pub fn n_units(tier: Tier) -> u64 {
    n_docs() * values_per_doc(tier, 40, 600)
}

struct RunUnit<'a> {
    ctx: &'a mut Ctx,
    unit: u64,
    vi: u64,
}
impl DocFn for RunUnit<'_> {
    type Out = ();
    fn call<D: Doc>(self) {
        let RunUnit { ctx, unit, vi } = self;
        ctx.begin(unit, u64::MAX);
        let Some(p) = prep_doc_need::<D>(ctx.seed, ID, vi, ctx.tier, Need::Full) else {
            ctx.count("control_failures");
            return;
        };
        ctx.docs_seen.insert(D::NAME.to_string());
        let rows = row_classes(&p.schema);
        let canon_digest = Fnv::new().bytes(&p.canon).get();
        let cs = cases(ctx.seed, D::NAME, vi, p.b.len(), ctx.tier);
        for (sub, (src, script)) in cs.iter().enumerate() {
            let sub = sub as u64;
            ctx.begin(unit, sub);
            match exec(&p, *src, script) {
                Ok(info) => {
                    ctx.logical_steps += info.steps;
                    for (w, at) in &info.fired {
                        ctx.count(&format!("fault.{}", w));
                        if w != "intr" {
                            if let Some(pr) = position_probe(&rows, *at) {
                                ctx.count(&format!("probe.fault_in_{}", pr));
                            }
                        }
                    }
                    if info.shorts > 0 {
                        ctx.count("fault.short-read");
                    }
                    if info.outcome == "ok" && info.fired.iter().any(|(w, _)| w == "intr") {
                        ctx.count("probe.eintr_retried_to_success");
                    }
                    if info.outcome == "ok" && info.shorts > 0 {
                        ctx.count("probe.fragmented_read_to_success");
                    }
                    if matches!(src, Src::Buf(_)) && info.outcome != "ok" {
                        ctx.count("probe.failure_through_bufreader");
                    }
                    let nontrivial = !info.fired.is_empty() || info.shorts > 0;
                    let nt = if nontrivial { Some(Fnv::new().str(D::NAME).u64(canon_digest).str(&format!("{:?}{:?}", src, script)).get()) } else { None };
                    ctx.done(unit, sub, info.digest, nt);
                    if nontrivial && sub % 131 == 5 {
                        ctx.sample(|| serde_json::json!({"case": Case { doc: D::NAME.into(), vi, src: *src, script: script.clone() }, "stream_len": p.b.len(), "fired": info.fired, "outcome": info.outcome}));
                    }
                }
                Err(v) => {
                    ctx.done(unit, sub, Fnv::new().str(&v.class).get(), None);
                    ctx.violation(v, unit, sub, || serde_json::to_value(&Case { doc: D::NAME.into(), vi, src: *src, script: script.clone() }).unwrap());
                }
            }
        }
    }
}

pub fn run_unit(ctx: &mut Ctx, unit: u64) {
    let (doc, vi) = unit_doc(unit);
    docs::dispatch(doc, RunUnit { ctx, unit, vi });
}

struct CaseAt {
    seed: u64,
    tier: Tier,
    vi: u64,
    sub: u64,
}
impl DocFn for CaseAt {
    type Out = Option<Case>;
    fn call<D: Doc>(self) -> Option<Case> {
        let p = prep_doc_need::<D>(self.seed, ID, self.vi, self.tier, Need::Full)?;
        cases(self.seed, D::NAME, self.vi, p.b.len(), self.tier).get(self.sub as usize).map(|(src, script)| Case { doc: D::NAME.into(), vi: self.vi, src: *src, script: script.clone() })
    }
}
pub fn case_at(ctx: &mut Ctx, unit: u64, sub: u64) -> Option<serde_json::Value> {
    let (doc, vi) = unit_doc(unit);
    docs::dispatch(doc, CaseAt { seed: ctx.seed, tier: ctx.tier, vi, sub }).flatten().map(|c| serde_json::to_value(&c).unwrap())
}

struct Replay<'a> {
    case: &'a Case,
    seed: u64,
    tier: Tier,
}
impl DocFn for Replay<'_> {
    type Out = Result<Option<Violation>, String>;
    fn call<D: Doc>(self) -> Self::Out {
        let Some(p) = prep_doc_need::<D>(self.seed, ID, self.case.vi, self.tier, Need::Full) else { return Err("the fault-free control run of this value fails".into()) };
        Ok(exec(&p, self.case.src, &self.case.script).err())
    }
}
pub fn replay(case: &serde_json::Value, ctx: &mut Ctx) -> Result<Option<Violation>, String> {
    let c: Case = serde_json::from_value(case.clone()).map_err(|e| e.to_string())?;
    docs::dispatch(&c.doc, Replay { case: &c, seed: ctx.seed, tier: ctx.tier }).unwrap_or(Err("unknown document".into()))
}

pub fn shrink(case: &serde_json::Value) -> Vec<serde_json::Value> {
    let Ok(c) = serde_json::from_value::<Case>(case.clone()) else { return vec![] };
    let mut out: Vec<Case> = Vec::new();
    for vi in 0..c.vi.min(3) {
        out.push(Case { vi, ..c.clone() });
    }
    if c.src != Src::Sim {
        out.push(Case { src: Src::Sim, ..c.clone() });
    }
    out.extend(shrink_scripts(&c.script).into_iter().map(|s| Case { script: s, ..c.clone() }));
    out.into_iter().map(|d| serde_json::to_value(&d).unwrap()).collect()
}

pub fn shrink_scripts(script: &Script) -> Vec<Script> {
    let mut out = Vec::new();
    for i in 0..script.steps.len() {
        let mut s = script.clone();
        s.steps.remove(i);
        out.push(s);
    }
    if !script.tail.is_empty() {
        let mut s = script.clone();
        s.tail.clear();
        out.push(s);
    }
    if !script.flush_fail.is_empty() {
        let mut s = script.clone();
        s.flush_fail.clear();
        out.push(s);
    }
    for i in 0..script.steps.len() {
        let simpler = match script.steps[i] {
            Step::Until(k) if k > 0 => vec![Step::Until(k / 2), Step::Until(k - 1)],
            Step::Chunk(k) if k > 1 => vec![Step::Chunk(k / 2)],
            Step::Fail(k) if k != Kind::Other => vec![Step::Fail(Kind::Other)],
            _ => vec![],
        };
        for st in simpler {
            let mut s = script.clone();
            s.steps[i] = st;
            out.push(s);
        }
    }
    out
}
