//! C08, compile-time facet: a loaded structure can be sent to and shared with other threads.
//! Must compile.
use epserde::prelude::*;

#[derive(Epserde, Debug, Clone)]
struct Doc<A> {
    a: A,
    n: u32,
}

fn assert_send_sync<T: Send + Sync>() {}

fn main() {
    assert_send_sync::<MemCase<&'static [u64]>>();
    assert_send_sync::<MemCase<&'static str>>();
    assert_send_sync::<MemCase<Vec<&'static str>>>();
    assert_send_sync::<MemCase<<Doc<Vec<u64>> as DeserializeInner>::DeserType<'static>>>();
    assert_send_sync::<MemCase<<Vec<String> as DeserializeInner>::DeserType<'static>>>();
    // and really do it, with the types the loaders return
    fn load_and_send() -> Option<()> {
        let c = <Vec<u64>>::load_mem("/nonexistent").ok()?;
        let h = std::thread::spawn(move || c.len());
        h.join().ok().map(|_| ())
    }
    let _ = load_and_send();
}
