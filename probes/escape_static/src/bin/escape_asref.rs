//! Observation (known finding of C09), AsRef access path.
use epserde::prelude::*;

fn main() {
    let Ok(case) = <Box<[u32]>>::load_mem("/nonexistent") else { return };
    let r: &'static [u32] = *case.as_ref();
    drop(case);
    println!("{:?}", r.first());
}
