//! Control of the send_sync probe: the same API use without the Send/Sync assertions and without
//! crossing a thread. If this stops compiling, the probe is broken (harness error), not the property.
use epserde::prelude::*;

#[derive(Epserde, Debug, Clone)]
struct Doc<A> {
    a: A,
    n: u32,
}

fn main() {
    fn load() -> Option<usize> {
        let c = <Vec<u64>>::load_mem("/nonexistent").ok()?;
        Some(c.len())
    }
    let _ = load();
    let _: Option<MemCase<<Doc<Vec<u64>> as DeserializeInner>::DeserType<'static>>> = None;
}
